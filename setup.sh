#!/usr/bin/env bash
# Build the fact exporter (rustc_private driver) offline with the pre-installed nightly toolchain.
set -euo pipefail
cd "$(dirname "$0")"
export CARGO_NET_OFFLINE=true
( cd driver && cargo +nightly build --release --offline 2>&1 | tail -3 )
test -x driver/target/release/pfz-facts
echo "setup ok"
