"""C18: entropy adapters stay in range and never fail (source.rs against the library contracts)."""
import harness as H
import absgen as G
import models as M
import models2 as M2
import entsum
from framework import Result
from interp import Interp, explore
from values import Agg, Box_, Bytes, Ref, Sym, Unanalysable, bounds, is_sym, INT_TYPES

PRINTABLE = set(range(32, 127))


def method_leaves(env, key, mkargs):
    prog, ctx = env.prog, env.ctx
    mf = H.models_factory(prog, ctx, None)
    out = []

    def one(run):
        mods = mf()
        mods.no_entropy_summaries = True
        I = Interp(prog, run, mods)
        src = G.AbsSource(prog)
        args = mkargs()
        one.last = (I, src, args, None)
        r = I.call(key, [Ref(Box_(src, "source"), ())] + args)
        return (I, src, args, r)
    for run, res, pe in explore(one, max_runs=5000):
        I, src, args, r = res if res is not None else one.last
        out.append({"run": run, "end": pe, "I": I, "mode": src.mode(), "args": args, "ret": r,
                    "draws": [e for e in run.events if e[0] == "draw"], "lib_err": any("ok" in l and c == 0 for l, c in zip(run.labels, run.script))})
    return out


def lib_failed(lf):
    """did a library call return Err / exhausted on this leaf?"""
    run = lf["run"]
    for lab, c in zip(run.labels[:run.pos], run.script[:run.pos]):
        if lab.endswith(" ok") and c == 0:
            return True
    return False


def rule_C18(env):
    res = Result("C18", "proof")
    prog = env.prog
    impls = [i for i in prog.impls if i["trait"] and i["trait"].endswith("source::EntropySource")]
    if len(impls) != 1:
        res.add("anchor", "impl-count", "expected one impl of EntropySource, found %d" % len(impls))
        res.coverage = {"obligations": 1, "discharged": 0, "checker_cmd": "./check C18", "trusted_base": []}
        return res
    items = {it["name"]: it["key"] for it in impls[0]["items"] if it["key"] in prog.bodies}
    obligations = 0
    samples = []
    loc = lambda k: env.loc(k)
    modes_seen = {}

    def U(name, lo=None, hi=None):
        return Sym(name, (), "usize", lo, hi, attrs={"name": name})

    def common(name, lvs):
        nonlocal obligations
        ms = set()
        for lf in lvs:
            obligations += 1
            res.count("leaf")
            ms.add(lf["mode"])
            if lf["end"] is not None:
                res.add("total", "%s/%s" % (name, lf["end"].kind), "%s can %s: %s (%s source)" % (name, "panic" if lf["end"].kind == "panic" else lf["end"].kind, lf["end"].info, lf["mode"]),
                        loc(items[name]))
            elif isinstance(lf["ret"], Agg) and lf["ret"].adt in (M.RESULT,):
                res.add("total", "%s/returns-result" % name, "%s returns a Result: a draw can fail" % name, loc(items[name]))
            if lf["run"].panics:
                res.add("total", "%s/panic-site" % name, "%s has a reachable panic site: %r" % (name, lf["run"].panics[0]), loc(items[name]))
        modes_seen[name] = ms
        if not {"Rand", "Arbitrary"} <= ms and any(l["mode"] for l in lvs):
            res.add("modes", "%s/branches" % name, "%s does not dispatch on both entropy sources (seen %r)" % (name, sorted(m for m in ms if m)), loc(items[name]))

    # choose_index(max)
    if "choose_index" in items:
        lvs = method_leaves(env, items["choose_index"], lambda: [U("max")])
        common("choose_index", lvs)
        for lf in lvs:
            if lf["end"] is not None:
                continue
            r, mx = lf["ret"], lf["args"][0]
            obligations += 1
            if mx.hi == 0:
                if r != 0:
                    res.add("range", "choose_index/zero", "choose_index(0) returns %r, not 0" % (r,), loc(items["choose_index"]))
            elif not entsum._below(r, mx):
                res.add("range", "choose_index/below-n", "choose_index(n) may return %r which is not proved < n (%s source)" % (r, lf["mode"]), loc(items["choose_index"]))
            if lib_failed(lf) and not isinstance(r, int):
                res.add("fallback", "choose_index/fallback", "choose_index on exhausted input returns %r, not a fixed value" % (r,), loc(items["choose_index"]))
            if len(samples) < 6:
                samples.append({"method": "choose_index", "source": lf["mode"], "arg": repr(mx), "result": repr(r)})
    # gen_range(min, max)
    if "gen_range" in items:
        lvs = method_leaves(env, items["gen_range"], lambda: [U("min"), U("max")])
        common("gen_range", lvs)
        for lf in lvs:
            if lf["end"] is not None:
                continue
            r, mn, mx = lf["ret"], lf["args"][0], lf["args"][1]
            obligations += 1
            empty = any(a[0].op in ("Ge",) and a[0].args[0] is mn and a[0].args[1] is mx and a[1] for a in lf["run"].atom_log) or \
                any(a[0].op == "Lt" and a[0].args[0] is mn and a[0].args[1] is mx and not a[1] for a in lf["run"].atom_log)
            if empty:
                if r is not mn:
                    res.add("range", "gen_range/empty", "gen_range(a,b) with a >= b returns %r, not a" % (r,), loc(items["gen_range"]))
                continue
            lower_ok = (r is mn) or (is_sym(r) and ((r.attrs.get("range") or (None,))[0] is mn or (r.attrs.get("range_incl") or (None,))[0] is mn))
            upper_ok = entsum._below(r, mx) or (r is mn)
            if not lower_ok:
                res.add("range", "gen_range/lower", "gen_range(a,b) may return %r, not proved >= a (%s source)" % (r, lf["mode"]), loc(items["gen_range"]))
            if not upper_ok:
                res.add("range", "gen_range/upper", "gen_range(a,b) may return %r, not proved < b (%s source)" % (r, lf["mode"]), loc(items["gen_range"]))
            if lib_failed(lf) and r is not mn:
                res.add("fallback", "gen_range/fallback", "gen_range on exhausted input returns %r, not the lower bound" % (r,), loc(items["gen_range"]))
            if len(samples) < 8:
                samples.append({"method": "gen_range", "source": lf["mode"], "result": repr(r)})
    # gen_ascii_char
    if "gen_ascii_char" in items:
        lvs = method_leaves(env, items["gen_ascii_char"], lambda: [])
        common("gen_ascii_char", lvs)
        for lf in lvs:
            if lf["end"] is not None:
                continue
            obligations += 1
            try:
                cs = M.char_set(lf["I"], lf["ret"])
            except Unanalysable as e:
                res.add("charset", "gen_ascii_char/unknown", "charset of gen_ascii_char not computable: %s" % e, loc(items["gen_ascii_char"]))
                continue
            bad = sorted(c for c in cs if c not in PRINTABLE)
            if bad:
                res.add("charset", "gen_ascii_char/non-printable", "gen_ascii_char may return character 0x%02x (not printable ASCII)" % bad[0], loc(items["gen_ascii_char"]))
    # gen_bytes(len)
    if "gen_bytes" in items:
        lvs = method_leaves(env, items["gen_bytes"], lambda: [U("len", 0, 1 << 20)])
        common("gen_bytes", lvs)
        for lf in lvs:
            if lf["end"] is not None:
                continue
            obligations += 1
            r, n = lf["ret"], lf["args"][0]
            okl = False
            if isinstance(r, Bytes):
                if len(r.parts) == 1 and r.parts[0][0] == "pay" and r.parts[0][1].len is n:
                    okl = True
                lo, hi = r.fixed_len()
                if lo == hi == n.lo == n.hi:
                    okl = True
            if not okl:
                res.add("length", "gen_bytes/length", "gen_bytes(n) returns %r whose length is not proved to be n (%s source)" % (r, lf["mode"]), loc(items["gen_bytes"]))
    # scalar draws: total, fixed fallback
    for name in ("gen_bool", "gen_u8", "gen_u16", "gen_u32", "gen_i32", "gen_i64", "gen_f64", "gen_unit_f64"):
        if name not in items:
            continue
        lvs = method_leaves(env, items[name], lambda: [])
        common(name, lvs)
        for lf in lvs:
            if lf["end"] is not None:
                continue
            obligations += 1
            r = lf["ret"]
            if lib_failed(lf) and is_sym(r) and not (r.op in ("div", "mul", "cast") and all(not is_sym(x) for x in r.args)):
                res.add("fallback", "%s/fallback" % name, "%s on exhausted input returns %r, not a fixed value" % (name, r), loc(items[name]))
            if name == "gen_unit_f64" and is_sym(r):
                # value must lie in [0,1): either a library unit draw or u32 / 2^32
                okv = r.attrs.get("f64class") == "unit"
                if r.op == "div" and is_sym(r.args[0]) and r.args[0].op == "cast" and is_sym(r.args[0].args[0]) and isinstance(r.args[1], float):
                    inner = r.args[0].args[0]
                    if inner.lo >= 0 and inner.hi < r.args[1]:
                        okv = True
                if not okv:
                    res.add("range", "gen_unit_f64/unit", "gen_unit_f64 may return %r, not proved to be in [0,1) (%s source)" % (r, lf["mode"]), loc(items[name]))
    res.floor("leaf", 30, "method leaves")
    missing = [m for m in ("choose_index", "gen_range", "gen_ascii_char", "gen_bytes", "gen_bool", "gen_u8", "gen_f64") if m not in items]
    for m in missing:
        res.add("anchor", "method/%s" % m, "EntropySource method %s not found" % m)
    nviol = len(res.findings)
    res.coverage = {"obligations": obligations, "discharged": max(obligations - nviol, 0), "checker_cmd": "./check C18 --tier %s" % env.tier,
                    "trusted_base": ["rand::Rng::random_range(a..b) in [a,b), panics when empty", "rand::Rng::random::<f64>() in [0,1)",
                                     "arbitrary::Unstructured::choose_index(n) = Ok(i<n) | Err", "Unstructured::int_in_range(a..=b) = Ok(a<=x<=b) | Err, panics when a>b",
                                     "Unstructured::bytes(n) = Ok(n bytes) | Err; arbitrary()/random() are total"],
                    "methods": sorted(items), "samples": samples, "exhaustive": True}
    res.assumptions = ["results are compared with the declared ranges structurally (draw carries its range) or by interval inclusion"]
    return res
