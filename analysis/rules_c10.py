"""C10: EXT and out-of-band buffer opcodes appear only when explicitly enabled."""
import emission as E
import rules_pvm as PV
import gen_analysis as GA
import callgraph as CG
import harness as H
from framework import Result
from interp import Interp, Run
from values import Agg, Unanalysable

OPT = {"Ext1": "allow_ext_opcodes", "Ext2": "allow_ext_opcodes", "Ext4": "allow_ext_opcodes",
       "NextBuffer": "allow_buffer_opcodes", "ReadOnlyBuffer": "allow_buffer_opcodes"}


def writers_of_fields(prog, adt, names):
    """bodies that assign to <adt>.<name> through a field projection, or build the ADT as an aggregate"""
    out = {}
    for k, b in prog.bodies.items():
        for blk in CG.iter_blocks(b):
            for st in blk["s"]:
                if st["k"] != "assign":
                    continue
                for pr in st["pl"]["p"]:
                    if isinstance(pr, dict) and pr.get("n") in names:
                        out.setdefault(pr["n"], set()).add(k)
                rv = st["rv"]
                if rv["k"] == "agg" and rv["ak"].get("t") == "adt" and rv["ak"].get("adt") == adt:
                    for n in names:
                        out.setdefault(n, set()).add(k)
    return out


def rule_C10(env):
    res = Result("C10", "proof")
    spec = env.spec
    prog, ctx = env.prog, env.ctx
    obligations = 0
    opt_names = {spec.row(k)["name"]: flag for k, flag in OPT.items()}
    samples = []
    # "unless ... were enabled": the configuration a user gets without asking for anything has both opt-ins off
    PV.default_flags_premise(env, res, ["allow_ext_opcodes", "allow_buffer_opcodes"], "EXT / buffer opcodes are opt-in: the default must be off")
    # the flag guards of can_emit only protect anything if can_emit (of THIS generator, in THIS state) is what filters the choice
    import rules_c01
    tmp = Result("C10", "proof")
    rules_c01.generate_structure_checks(env, tmp)
    for f in tmp.findings:
        if "/R01.a/" in f.key or "/engine/" in f.key:
            res.add("premise", f.key.split("/", 2)[2], "the guards are not what decides which opcode is emitted: " + f.msg, f.where, f.detail)
    for unsafe in (False, True):
        tr = PV.get_trans(env, unsafe)
        for op, lvs in tr.items():
            if isinstance(lvs, Exception):
                res.add("engine", "unanalysable/%s" % op, "arm %s cannot be analysed: %s" % (op, lvs), PV.op_loc(env, "::emit_and_process"))
                continue
            for lf in lvs:
                if not lf.can_emit:
                    continue
                obligations += 1
                res.count("C10.a")
                if op in OPT and lf.flags.get(OPT[op]) is not True:
                    res.add("C10.a", "can_emit/%s" % op, "can_emit(%s) can be true while %s is %r" % (op, OPT[op], lf.flags.get(OPT[op])),
                            PV.op_loc(env, "::can_emit"), PV.sample(lf, []))
                if lf.end is not None:
                    continue
                parts, _ = E.final_parts(lf.writes)
                if not parts:
                    continue
                for row, info, pr in E.decode_stream(parts, spec):
                    if row is None:
                        continue
                    if row["name"] in opt_names:
                        flag = opt_names[row["name"]]
                        if lf.flags.get(flag) is not True:
                            res.add("C10.c", "emit_and_process/%s/%s" % (op, row["name"]),
                                    "arm %s%s can emit %s while %s is not set" % (op, " (unsafe rewrite)" if unsafe else "", row["name"], flag),
                                    PV.op_loc(env, "::emit_and_process"), PV.sample(lf, []))
                        elif len(samples) < 3:
                            samples.append({"op": op, "emits": row["name"], "flag": flag, "value": True})
    res.floor("C10.a", 1000, "enabled leaves (safe+unsafe)")
    for lf in env.memo("cleanup_leaves", lambda: GA.cleanup_leaves(env)):
        for s in lf.steps:
            obligations += 1
            row = spec.row(s["op"])
            if row is not None and row["name"] in opt_names:
                res.add("C10.c", "cleanup_for_stop/%s" % row["name"], "collapse phase emits %s regardless of the opt-in flag" % row["name"], PV.op_loc(env, "::cleanup_for_stop"))
    # (d) defaults and writers
    mf = H.models_factory(prog, ctx, None)
    for entry, args in (("<generator::Generator as std::default::Default>::default", []),):
        try:
            k = prog.find(entry)
        except Unanalysable as e:
            res.add("C10.d", "default/anchor", str(e))
            continue
        I = Interp(prog, Run(), mf())
        g = I.call(k, args)
        names = ctx.fields(ctx.gen_adt)
        for flag in ("allow_ext_opcodes", "allow_buffer_opcodes"):
            obligations += 1
            res.count("C10.d")
            v = g.fields[names.index(flag)] if isinstance(g, Agg) else None
            if v is not False:
                res.add("C10.d", "default/%s" % flag, "Generator::default() sets %s to %r (must be false)" % (flag, v), env.loc(k))
    w = writers_of_fields(prog, ctx.gen_adt, ("allow_ext_opcodes", "allow_buffer_opcodes"))
    # `new` and `default` are constructors: their result is interpreted above/below and must have the flags false
    # Configuration API (constructors, builders, setters) may write the flags: that is what "explicitly enabled" means. Code that
    # runs as part of a generation call must not: it would turn the opt-in on behind the user's back.
    import callgraph as CG
    cg = CG.CallGraph(prog)
    gen_reach = cg.reachable([prog.find("generator::Generator::generate"), prog.find("generator::Generator::generate_from_arbitrary")])
    for flag, ks in sorted(w.items()):
        for k in sorted(ks):
            obligations += 1
            if k in gen_reach:
                res.add("C10.d", "writer/%s/%s" % (flag, k.split("::")[-1]), "%s writes Generator.%s and runs as part of a generation call" % (k, flag), env.loc(k))
    res.floor("C10.d", 2, "default flags")
    # Generator::new keeps the defaults
    try:
        knew = prog.find("generator::Generator::new")
        I = Interp(prog, Run(), mf())
        g = I.call(knew, [ctx.version_value(3)])
        names = ctx.fields(ctx.gen_adt)
        for flag in ("allow_ext_opcodes", "allow_buffer_opcodes"):
            obligations += 1
            if g.fields[names.index(flag)] is not False:
                res.add("C10.d", "new/%s" % flag, "Generator::new() sets %s" % flag, env.loc(knew))
    except Unanalysable as e:
        res.add("C10.d", "new/anchor", str(e))
    # (e) CLI flags: default false and forwarded in both modes
    import rules_front
    obligations += rules_front.cli_flag_checks(env, res, "C10.e", only=("allow_ext", "allow_buffer"))
    nviol = len(res.findings)
    res.coverage = {"obligations": obligations, "discharged": max(obligations - nviol, 0), "checker_cmd": "./check C10 --tier %s" % env.tier,
                    "trusted_base": ["rustc MIR export", "analysis/models*.py", "reference/opcodes.json", "clap derive semantics (bool flag defaults to false)"],
                    "samples": samples or [{"note": "no opt-in emission sample"}], "exhaustive": True}
    res.assumptions = ["unsafe mode covers every Mutator::post_process impl in the crate (type-confusion rewrites)"]
    return res
