"""E1: table extraction (T1 byte values, T2 per-protocol rows) by interpreting constant bodies."""
from values import Agg, Box_, Ref, Unanalysable
import models as M
import harness as H
from interp import Interp, Run


def _interp(prog, ctx):
    mods = H.models_factory(prog, ctx)()
    return Interp(prog, Run(), mods)


def extract_T1(prog, ctx):
    key = prog.find("OpcodeKind::as_u8")
    by_ref = prog.bodies[key]["locals"][1]["ty"].startswith("&")
    out = {}
    for name in prog.variant_names(ctx.opcode_adt):
        I = _interp(prog, ctx)
        v = ctx.opcode_value(name)
        arg = Ref(Box_(v, "op"), ()) if by_ref else v
        r = I.call(key, [arg])
        if not isinstance(r, int):
            raise Unanalysable("as_u8(%s) is not a constant: %r" % (name, r))
        if I.run.pos:
            raise Unanalysable("as_u8(%s) is not deterministic" % name)
        out[name] = r
    return out


def extract_T2(prog, ctx):
    key = prog.find("opcodes::PICKLE_OPCODES", kind="static")
    I = _interp(prog, ctx)
    m = I.call(key, [])
    entries = None
    if isinstance(m, Agg):
        for fld in m.fields:
            try:
                el = M.as_elems(I, M.deref(I, fld))
            except Unanalysable:
                continue
            if el and isinstance(el[0], Agg) and el[0].adt == "tuple" and len(el[0].fields) == 2 and isinstance(el[0].fields[0], int):
                entries = el
    if entries is None:
        raise Unanalysable("PICKLE_OPCODES layout not recognised")
    out = {}
    for e in entries:
        k = e.fields[0]
        vals = M.as_elems(I, M.deref(I, e.fields[1]))
        names = []
        for v in vals:
            if not (isinstance(v, Agg) and v.adt == ctx.opcode_adt):
                raise Unanalysable("PICKLE_OPCODES row %r holds a non-opcode value %r" % (k, v))
            names.append(v.vname)
        if k in out:
            raise Unanalysable("PICKLE_OPCODES has two rows for key %r" % k)
        out[k] = names
    return out
