#!/usr/bin/env python3
"""./check entry point: run the rules of one property on /repo's current tree."""
import argparse
import importlib
import os
import sys

HERE = os.path.dirname(os.path.abspath(__file__))
sys.path.insert(0, HERE)
import framework  # noqa: E402

RULES = {
    "C01": ("rules_c01", "rule_C01"),
    "C02": ("rules_c02", "rule_C02"),
    "C03": ("rules_pvm", "rule_C03"),
    "C04": ("rules_c04", "rule_C04"),
    "C05": ("rules_c05", "rule_C05"),
    "C06": ("rules_gen", "rule_C06"),
    "C07": ("rules_effects", "rule_C07"),
    "C08": ("rules_gen", "rule_C08"),
    "C09": ("rules_c09", "rule_C09"),
    "C10": ("rules_c10", "rule_C10"),
    "C11": ("rules_gen", "rule_C11"),
    "C12": ("rules_c12", "rule_C12"),
    "C13": ("rules_front", "rule_C13"),
    "C14": ("rules_c14", "rule_C14"),
    "C15": ("rules_mut", "rule_C15"),
    "C16": ("rules_mut", "rule_C16"),
    "C17": ("rules_pvm", "rule_C17"),
    "C18": ("rules_c18", "rule_C18"),
}


def main():
    ap = argparse.ArgumentParser()
    ap.add_argument("property")
    ap.add_argument("--tier", default=os.environ.get("VERIF_TIER", "quick"), choices=["quick", "thorough"])
    ap.add_argument("--replay", default=None)
    a = ap.parse_args()
    pid = a.property
    if pid not in RULES:
        print("unknown property %s" % pid)
        return 2
    modname, fn = RULES[pid]
    try:
        mod = importlib.import_module(modname)
    except ImportError as e:
        print("property %s has no rule module yet: %s" % (pid, e))
        return 2
    want = None
    if a.replay:
        import json
        want = json.load(open(a.replay))["finding"]["key"]   # read first: the run rewrites out/<id>/
    try:
        rc = framework.run_property(pid, a.tier, getattr(mod, fn))
    except RuntimeError as e:
        print("ERROR property=%s cannot analyse the tree: %s" % (pid, e))
        return 2
    if a.replay:
        import json
        outdir = os.path.join(framework.VERIF, "out", pid)
        still = False
        for fnm in os.listdir(outdir):
            if fnm.endswith(".json") and json.load(open(os.path.join(outdir, fnm)))["finding"]["key"] == want:
                still = True
        print("REPLAY %s: finding %s %s on the current tree" % (pid, want, "REPRODUCES" if still else "does not reproduce"))
        return 1 if still else 0
    return rc


if __name__ == "__main__":
    sys.exit(main())
