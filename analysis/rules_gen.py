"""C06 (FRAME), C08 (reuse), C11 (size bounds): rules on generate_internal and its callees."""
import re
import emission as E
import rules_pvm as PV
import gen_analysis as GA
import absgen as G
import harness as H
import callgraph as CG
from framework import Result
from interp import Interp, explore
from values import Agg, Box_, Bytes, Payload, Ref, Sym, err, is_sym, bounds, Unanalysable


def gen_leaves(env, ver):
    return env.memo(("gen_leaves", ver), lambda: GA.generate_internal_leaves(env, ver))


def ok_leaf(g):
    return g.end is None and getattr(g.ret, "vname", None) == "Ok"


# ----------------------------------------------------------------------------------------
def rule_C06(env):
    res = Result("C06", "proof")
    spec = env.spec
    frame_code = spec.by_norm["FRAME"]["code"]
    loc = PV.op_loc(env, "::generate_internal")
    obligations = 0
    samples = []
    # R06.a who may emit FRAME
    for unsafe in (False, True):
        tr = PV.get_trans(env, unsafe)
        lv = tr.get("Frame")
        if isinstance(lv, Exception):
            res.add("engine", "unanalysable/Frame", "can_emit(Frame) cannot be analysed: %s" % lv, PV.op_loc(env, "::can_emit"))
        elif any(lf.can_emit for lf in lv):
            res.add("R06.a", "can_emit/Frame/true", "can_emit(Frame) can be true: FRAME could be chosen inside the body", PV.op_loc(env, "::can_emit"))
        for op, lvs in tr.items():
            if isinstance(lvs, Exception):
                if unsafe:
                    res.add("engine", "unanalysable/unsafe/%s" % op, "arm %s cannot be analysed in unsafe mode: %s" % (op, lvs), PV.op_loc(env, "::emit_and_process"))
                continue
            for lf in lvs:
                if not lf.can_emit or lf.end is not None:
                    continue
                obligations += 1
                res.count("R06.a")
                for w in lf.writes:
                    if w[0] == "truncate" and w[2] is None:
                        res.add("R06.d", "emit_and_process/%s/truncate" % op,
                                "%s: output truncated to %r, which is not the opcode boundary recorded by create_snapshot (a frame could be cut)" % (op, w[1]),
                                PV.op_loc(env, "::emit_and_process"))
                    if w[0] in ("patch", "clear"):
                        res.add("R06.d", "emit_and_process/%s/%s" % (op, w[0]), "%s: emitted bytes are %s during the body" % (op, "patched" if w[0] == "patch" else "cleared"),
                                PV.op_loc(env, "::emit_and_process"))
                parts, _ = E.final_parts(lf.writes)
                if parts:
                    for row, info, pr in E.decode_stream(parts, spec):
                        if row is not None and row["name"] == "FRAME":
                            res.add("R06.a", "emit_and_process/%s/frame" % op, "arm %s%s can emit a FRAME opcode" % (op, " (unsafe rewrite)" if unsafe else ""),
                                    PV.op_loc(env, "::emit_and_process"))
    res.floor("R06.a", 600, "emission leaves")
    lvs = env.memo("cleanup_leaves", lambda: GA.cleanup_leaves(env))
    for lf in lvs:
        for s in lf.steps:
            row = spec.row(s["op"])
            if row is not None and row["name"] == "FRAME":
                res.add("R06.a", "cleanup_for_stop/frame", "collapse phase emits FRAME", PV.op_loc(env, "::cleanup_for_stop"))
    # create_snapshot is only called from emit_and_process
    cg = CG.CallGraph(env.prog)
    try:
        k_snap = env.prog.find("::create_snapshot")
        callers = sorted(cg.callers(k_snap))
        if [c.split("::")[-1] for c in callers] != ["emit_and_process"]:
            res.add("R06.d", "create_snapshot/callers", "create_snapshot is called from %r; the truncation target is only an opcode boundary when taken in emit_and_process" % callers,
                    env.loc(k_snap))
    except Unanalysable as e:
        res.add("R06.d", "create_snapshot/missing", str(e))
    # R06.b/c on generate_internal
    nframed = nunframed = 0
    for ver in range(6):
        for g in gen_leaves(env, ver):
            if not ok_leaf(g):
                continue
            obligations += 1
            res.count("R06.bc")
            ws = g.writes
            # writes before the first body emission
            first_body = next((i for i, w in enumerate(ws) if w[0] in ("opaque_emission", "opaque_cleanup")), len(ws))
            head = [w for w in ws[:first_body]]
            head_parts = [p for w in head if w[0] == "out" for p in w[1]]
            flat = E.flatten(head_parts)
            hb = b"".join(p[1] for p in flat if p[0] == "lit")
            proto_len = 2 if ver >= 2 else 0
            reserved = len(hb) - proto_len
            patches = [w for w in ws if w[0] == "patch"]
            if reserved == 0:
                nunframed += 1
                if patches:
                    res.add("R06.b", "generate_internal/patch-unframed/V%d" % ver, "output patched although no FRAME was reserved (protocol %d)" % ver, loc)
                continue
            nframed += 1
            if ver < 4:
                res.add("R06.b", "generate_internal/frame-below-4/V%d" % ver, "FRAME bytes are reserved for protocol %d" % ver, loc)
            if reserved != 9 or any(p[0] != "lit" for p in flat):
                res.add("R06.b", "generate_internal/reservation/V%d" % ver, "reserved %d bytes after the header, FRAME needs 9" % reserved, loc)
                continue
            # position of the reservation = output length after PROTO
            base = g.h.out.base
            entry_len = reset_len(g)
            pos_expected = combine(entry_len, proto_len)
            if len(patches) != 2:
                res.add("R06.c", "generate_internal/patch-count/V%d" % ver, "FRAME reservation patched %d times (expected opcode byte + 8-byte size)" % len(patches), loc)
                continue
            p_op = [p for p in patches if p[2] == 1]
            p_sz = [p for p in patches if p[2] != 1]
            if len(p_op) != 1 or len(p_sz) != 1:
                res.add("R06.c", "generate_internal/patch-shape/V%d" % ver, "unexpected FRAME patch shape %r" % ([(p[1], p[2]) for p in patches],), loc)
                continue
            _, idx, n, parts = p_op[0]
            if not same(idx, pos_expected):
                res.add("R06.c", "generate_internal/opcode-position/V%d" % ver, "FRAME opcode written at %r, the reservation starts at %r" % (idx, pos_expected), loc)
            if not (parts and parts[0][0] == "lit" and parts[0][1] == bytes([frame_code])):
                res.add("R06.c", "generate_internal/opcode-byte/V%d" % ver, "byte patched at the reservation is %r, not FRAME" % (parts,), loc)
            _, idx2, n2, parts2 = p_sz[0]
            if not (same(idx2, combine(pos_expected, 1)) and n2 == 8):
                res.add("R06.c", "generate_internal/size-position/V%d" % ver, "frame size written at %r (+%r bytes), expected %r (+8)" % (idx2, n2, combine(pos_expected, 1)), loc)
            # the size term: (length after STOP) - (pos + 9)
            final_len = g.h.out.cur_len
            want = combine(final_len, neg(combine(pos_expected, 9)))
            if not (len(parts2) == 1 and parts2[0][0] == "int" and parts2[0][3] == "le" and parts2[0][5] - parts2[0][4] == 8):
                res.add("R06.c", "generate_internal/size-encoding/V%d" % ver, "frame size is not written as an 8-byte little-endian integer: %r" % (parts2,), loc)
            else:
                val = E.strip_casts(parts2[0][1])
                if not same(val, want):
                    via_results = sorted({str(x.attrs.get("name")) for x in (val.leaves() if hasattr(val, "leaves") else []) if str(x.attrs.get("name", "")).endswith("_result")})
                    res.add("R06.c", "generate_internal/size-term/V%d" % ver,
                            "frame size term %r is not (final output length) - (frame position + 9) = %r%s" % (val, want,
                            ("; it is accumulated from the values returned by %s, and what those calls return is not the number of bytes that finally "
                             "stay in the buffer unless every later rewrite of the emitted bytes (post_process_emission, truncation) is accounted for: "
                             "only the buffer itself is authoritative" % ", ".join(via_results)) if via_results else ""), loc)
            # nothing is appended after the size was computed: the last write before the patches is STOP
            li = max(i for i, w in enumerate(ws) if w[0] == "patch")
            fi = min(i for i, w in enumerate(ws) if w[0] == "patch")
            if any(w[0] in ("out", "truncate", "clear", "opaque_emission", "opaque_cleanup") for w in ws[fi:]):
                res.add("R06.c", "generate_internal/write-after-patch/V%d" % ver, "output is modified after the frame size was computed", loc)
            if len(samples) < 3:
                samples.append({"protocol": ver, "frame_pos": repr(pos_expected), "size_term": repr(parts2[0][1])[:200]})
    if nframed == 0:
        res.add("R06.b", "generate_internal/no-framed-leaf", "no framed path found for protocols 4/5", loc)
    res.floor("R06.bc", 8, "successful generate_internal leaves")
    nviol = len(res.findings)
    res.coverage = {"obligations": obligations, "discharged": max(obligations - nviol, 0), "checker_cmd": "./check C06 --tier %s" % env.tier,
                    "trusted_base": ["rustc MIR export", "analysis/models*.py (Vec<u8> model with linear length terms)", "reference/opcodes.json"],
                    "framed_leaves": nframed, "unframed_leaves": nunframed, "samples": samples or [{"note": "no framed leaf"}], "exhaustive": True}
    res.assumptions = ["emit_and_process and cleanup_for_stop only append (checked by R06.d/R04.c on their own leaves); lengths are linear terms over opaque appended sizes"]
    return res


def reset_len(g):
    """output length right after the entry reset (0 when the output was cleared)"""
    for w in g.writes:
        if w[0] == "clear":
            return 0
        break
    return G.Lin.of(g.h.out.base)


def combine(a, b):
    if isinstance(a, int) and isinstance(b, int):
        return a + b
    return G.Lin.of(a).combine(b, 1)


def neg(a):
    if isinstance(a, int):
        return -a
    z = G.Lin({}, 0)
    return z.combine(a, -1)


def same(a, b):
    if isinstance(a, int) and isinstance(b, int):
        return a == b
    if isinstance(a, int) or isinstance(b, int):
        d = G.Lin.of(a).combine(b, -1)
        return (not is_sym(d)) and d == 0
    d = G.Lin.of(a).combine(b, -1)
    return (not is_sym(d)) and d == 0


# ----------------------------------------------------------------------------------------
def rule_C08(env):
    res = Result("C08", "other")
    prog, ctx = env.prog, env.ctx
    loc = PV.op_loc(env, "::generate_internal")
    n = 0
    # R08.a: from a completely unknown entry state nothing of the scratch state is read before it is overwritten
    for ver in (0, 3, 5):
        for g in gen_leaves(env, ver):
            n += 1
            res.count("R08.a")
            evs = g.events
            def first(pred):
                for i, e in enumerate(evs):
                    if pred(e):
                        return i
                return None
            i_out_clear = first(lambda e: e[0] == "out_clear")
            i_out_use = first(lambda e: e[0] in ("out", "out_len_read", "out_truncate", "out_patch", "out_clone") or (e[0] == "call"))
            i_st_clear = first(lambda e: e[0] == "stack_clear")
            i_st_use = first(lambda e: e[0] in ("push", "pop", "pop_empty", "depth_bound") or e[0] == "call")
            i_m_clear = first(lambda e: e[0] == "memo_clear")
            i_m_use = first(lambda e: e[0] in ("memo_inspected", "memo_put", "memo_get", "memo_get_miss", "memo_keys_iter") or e[0] == "call")
            def before(a, b):
                return a is not None and (b is None or a < b)
            if not before(i_out_clear, i_out_use):
                res.add("R08.a", "generate_internal/output-not-cleared", "a generation call uses Generator.output before clearing it: bytes of an earlier call survive", loc)
            if not before(i_st_clear, i_st_use) or g.h.stack.orig:
                res.add("R08.a", "generate_internal/stack-not-cleared", "a generation call uses the simulated stack before clearing it", loc)
            if not before(i_m_clear, i_m_use):
                res.add("R08.a", "generate_internal/memo-not-cleared", "a generation call uses the simulated memo before clearing it", loc)
            if g.h.proto_emitted.value is not None:
                res.add("R08.a", "generate_internal/proto_emitted-not-reset", "a generation call reads State.proto_emitted before resetting it", loc)
            for fld in g.h.extra_scratch_read_at_entry(g.atoms, g.writes):
                res.add("R08.a", "generate_internal/state.%s-read-before-reset" % fld,
                        "a generation call reads State.%s as left by the previous call (it is not reset at the start of the call)" % fld, loc)
            ch = g.h.config_changes()
            if ch:
                res.add("R08.c", "generate_internal/config-written/%s" % ",".join(ch), "generate_internal overwrites configuration field(s) %s" % ch, loc)
            # the returned bytes are a copy of the output at the end
            if ok_leaf(g):
                r = g.ret.fields[0]
                if not (isinstance(r, G.OutCopy) and r.nwrites == len(g.writes)):
                    res.add("R08.a", "generate_internal/return-not-output", "the value returned is not a copy of the complete output buffer", loc)
    res.floor("R08.a", 6, "generate_internal leaves")
    # R08.e: Generator fields this analysis has no role for.  A field no generation code writes is configuration (its value is
    # arbitrary but fixed, every other rule already holds for all its values).  A field generation code writes is per-pickle
    # state: it must not be read as left by the previous call - neither by generate_internal before it rewrites it, nor by an
    # emission / collapse leaf unless generate_internal has rewritten it before the first opcode.
    written, read_later = set(), set()
    all_gen = [g for ver in (0, 3, 5) for g in gen_leaves(env, ver)]
    for g in all_gen:
        written |= set(g.h.extra_gen_changed())
    for unsafe in (False, True):
        for op, lvs in PV.get_trans(env, unsafe).items():
            if isinstance(lvs, Exception):
                continue
            for lf in lvs:
                written |= {x for x in (getattr(lf, "extra_changed", None) or []) if not x.startswith("state.")}
                read_later |= {x for x in (getattr(lf, "extra_read", None) or []) if not x.startswith("state.")}
    for lf in env.memo("cleanup_leaves", lambda: GA.cleanup_leaves(env)):
        written |= {x for x in (getattr(lf, "extra_changed", None) or []) if not x.startswith("state.")}
        read_later |= {x for x in (getattr(lf, "extra_read", None) or []) if not x.startswith("state.")}
    for g in all_gen:
        res.count("R08.e")
        for fld in g.h.extra_gen_read_at_entry(g.atoms, g.writes):
            if fld in written:
                res.add("R08.a", "generate_internal/%s-read-before-reset" % fld,
                        "Generator.%s is written during generation and read by generate_internal as left by the previous call" % fld, loc)
        firsts = [e for e in g.events if e[0] == "extras_rewritten"]
        if firsts:
            for fld in sorted(written & read_later):
                if fld not in firsts[0][1]:
                    res.add("R08.a", "generate_internal/%s-not-reset-before-first-opcode" % fld,
                            "Generator.%s is per-pickle state read while opcodes are emitted, but generate_internal does not rewrite it before the first opcode" % fld, loc)
    # R08.f: mutators are stateless.  They are reached through `&self` behind `Box<dyn Mutator>`, which no reset can touch: a
    # field with interior mutability is state that survives from one pickle to the next.
    try:
        table = env.memo("muttable", lambda: __import__("mutsum").MutatorTable(prog))
        impl_types = sorted({i["self_ty"] for i in table.impls})
    except Exception as e:
        impl_types = []
        res.add("R08.f", "mutators/anchor", "Mutator impl table: %s" % e)
    INTERIOR = re.compile(r"\b(Cell|RefCell|UnsafeCell|OnceCell|OnceLock|LazyLock|Mutex|RwLock|Atomic\w*)\b")
    for ty in impl_types:
        res.count("R08.f")
        try:
            adt = prog.adt_of(ty)
        except Unanalysable:
            continue
        for v in prog.adts[adt]["variants"]:
            for fd in v["fields"]:
                m = INTERIOR.search(str(fd["ty"]))
                if m:
                    res.add("R08.f", "mutator-state/%s/%s" % (ty.split("::")[-1], fd["name"]),
                            "%s.%s: %s has interior mutability: a mutator is called through &self and outlives reset(), so what it records "
                            "during one pickle changes the next" % (ty, fd["name"], fd["ty"]), "src/mutators")
    res.floor("R08.f", 7, "Mutator implementors")
    # R08.b: reset() clears every scratch field (field roles are fixed in absgen.Ctx.make_generator; unknown fields fail closed)
    k_reset = prog.find("generator::Generator::reset")
    mf = H.models_factory(prog, ctx, None)
    def one(run):
        I = Interp(prog, run, mf())
        h = ctx.make_generator(depth_bound=3)
        I.call(k_reset, [h.ref()])
        return (I, h)
    for run, r, pe in explore(one):
        res.count("R08.b")
        if pe is not None:
            res.add("R08.b", "reset/ends-%s" % pe.kind, "Generator::reset does not return normally: %s" % (pe.info,), env.loc(k_reset))
            continue
        I, h = r
        kinds = [e[0] for e in run.events]
        for need, what in (("out_clear", "output"), ("stack_clear", "state.stack"), ("memo_clear", "state.memo")):
            if need not in kinds:
                res.add("R08.b", "reset/%s" % what, "Generator::reset does not clear %s" % what, env.loc(k_reset))
        st = h.g.fields[ctx.field_index(ctx.gen_adt, "state")]
        pe_v = st.fields[ctx.field_index(ctx.state_adt, "proto_emitted")]
        if pe_v is not False:
            res.add("R08.b", "reset/state.proto_emitted", "Generator::reset does not reset state.proto_emitted", env.loc(k_reset))
        for fld in h.extra_scratch_unchanged():
            res.add("R08.b", "reset/state.%s" % fld, "Generator::reset does not reset State.%s (per-pickle scratch state)" % fld, env.loc(k_reset))
        if h.config_changes():
            res.add("R08.c", "reset/config-written", "Generator::reset overwrites configuration field(s) %s" % h.config_changes(), env.loc(k_reset))
    res.floor("R08.b", 1, "reset leaves")
    # R08.c: emission / collapse leaves never write configuration
    for unsafe in (False, True):
        tr = PV.get_trans(env, unsafe)
        for op, lvs in tr.items():
            if isinstance(lvs, Exception):
                continue
            for lf in lvs:
                res.count("R08.c")
                if lf.config_changes:
                    res.add("R08.c", "emit_and_process/%s/config-written" % op, "%s overwrites configuration field(s) %s" % (op, lf.config_changes), PV.op_loc(env, "::emit_and_process"))
    # the public entry points themselves: interpreted with generate_internal stubbed; they must not write configuration
    # (a setting changed by one call would change what the next call on the same generator returns)
    k_gi0 = prog.find("::generate_internal")
    from values import ok as _ok, Opaque as _Opaque
    for ep in ("generator::Generator::generate", "generator::Generator::generate_from_arbitrary"):
        k = prog.find(ep)

        def one_ep(run, k=k):
            results = []

            def st_gi(I, kk, a):
                c = I.run.choose(2, "generate_internal ok")
                r = _Opaque("pickle#%d" % len(results))
                results.append(r)
                I.run.event("gi_call")
                return _ok(r) if c == 0 else err(_Opaque("eyre::Report"))
            I = Interp(prog, run, mf(), stubs={k_gi0: st_gi})
            h = ctx.make_generator(depth_bound=2)
            one_ep.last = (h, results, None)
            body = prog.bodies[k]
            args = [h.ref()]
            for i in range(2, body["arg_count"] + 1):
                ty = str(body["locals"][i].get("ty", ""))
                if ty in ("&[u8]", "&'a [u8]") or re.fullmatch(r"&('\w+ )?\[u8\]", ty):
                    data = Bytes([("pay", Payload("bytes", range(256), Sym("data_len", (), "usize", 0, 1 << 20), origin="entry_data"))], False)
                    args.append(Ref(Box_(data, "data"), ()))
                else:
                    args.append(Ref(Box_(_Opaque("arg%d" % i), "arg"), ()))
            r = I.call(k, args)
            return (h, results, r)
        for run, hh, pe in explore(one_ep, max_runs=400):
            res.count("R08.entry-config")
            h, results, r = hh if hh is not None else one_ep.last
            ch = h.config_changes()
            if ch:
                res.add("R08.c", "%s/config-written/%s" % (ep.split("::")[-1], ",".join(ch)),
                        "%s overwrites configuration field(s) %s: later calls on the same generator see a different configuration" % (ep, ch), env.loc(k))
            if pe is not None:
                continue
            # every successful return is the result of exactly one generate_internal call made by THIS call
            if getattr(r, "vname", None) == "Ok":
                if len(results) != 1 or r.fields[0] is not results[0]:
                    res.add("R08.a", "%s/returns-without-generating" % ep.split("::")[-1],
                            "%s can return Ok with a value that is not the result of exactly one generate_internal call of this call "
                            "(%d calls on the path): the bytes then come from an earlier call" % (ep, len(results)), env.loc(k))
            # unknown fields read as left by the previous call although some generation code writes them
            for fld in h.extra_gen_read_at_entry(run.atom_log, h.out.writes):
                if fld in written or fld in h.extra_gen_changed():
                    res.add("R08.a", "%s/%s-read-before-reset" % (ep.split("::")[-1], fld),
                            "%s reads Generator.%s as left by the previous call (the field is written during generation calls)" % (ep, fld), env.loc(k))
    # entry points pass through generate_internal exactly once; statics with interior mutability
    cg = CG.CallGraph(prog)
    k_gi = prog.find("::generate_internal")
    for ep in ("generator::Generator::generate", "generator::Generator::generate_from_arbitrary"):
        k = prog.find(ep)
        res.count("R08.entry")
        calls = [c for c in cg.calls_of(k) if c[0] == k_gi]
        if len(calls) != 1:
            res.add("R08.a", "%s/generate_internal-calls" % ep.split("::")[-1], "%s calls generate_internal %d times" % (ep, len(calls)), env.loc(k))
    reach = cg.reachable([prog.find("generator::Generator::generate"), prog.find("generator::Generator::generate_from_arbitrary")])
    used = set()
    for k in reach:
        used |= cg.statics.get(k, set())
    for s in sorted(used):
        if s.startswith("thread_local:"):
            res.add("R08.c", "thread-local/%s" % s.split("::")[-1], "generation reads thread-local %s: state shared across calls" % s)
    statics = [k for k, b in prog.bodies.items() if b["kind"] == "static" and any(u == k or u.endswith("::" + k) or k.endswith(u) for u in used)]
    mutable_statics = []
    for k in statics:
        ty = prog.bodies[k]["ret_ty"]
        if any(x in ty for x in ("Cell", "Mutex", "RwLock", "Atomic", "OnceLock", "Lazy")):
            mutable_statics.append((k, ty))
    for k, ty in mutable_statics:
        if "OnceLock" in ty and k.endswith("STDLIB_MODULES"):
            continue  # initialised once from include_str!: a constant (C07 checks the initialiser)
        res.add("R08.c", "static/%s" % k.split("::")[-1], "static %s: %s has interior mutability: state shared across generation calls" % (k, ty), env.loc(k))
    # R08.d python binding
    try:
        py = env.unit("pylib")
        pcg = CG.CallGraph(py)
        kb = py.find("PyGenerator::generate_from_bytes")
        cal = [c[0] for c in pcg.calls_of(kb, external=True)]
        names = [c.split("::")[-1] for c in cal]
        res.count("R08.d")
        if names.count("generate_from_arbitrary") != 1:
            res.add("R08.d", "python/generate_from_bytes", "PyGenerator::generate_from_bytes does not call Generator::generate_from_arbitrary exactly once (%r)" % names, env.loc(kb, py))
        if any(nm in ("new", "reset", "default") and "Generator" in c for nm, c in zip(names, cal)):
            res.add("R08.d", "python/generate_from_bytes/rebuilds", "PyGenerator::generate_from_bytes rebuilds or resets the generator", env.loc(kb, py))
    except Unanalysable as e:
        res.add("R08.d", "python/anchor", "python binding anchor missing: %s" % e)
    res.coverage = {"explanation": "must-pass-through / non-interference: generate_internal is interpreted from a completely unknown entry state "
                    "(stack, memo, output, proto flag all symbolic) with its verified callees stubbed; every use of scratch state must be preceded by an "
                    "event that clears it; reset() is interpreted and must clear every scratch field; no emission/collapse leaf writes a configuration field; "
                    "field roles are fixed (an unknown new Generator/State field is a hard error).",
                    "evaluations": n, "distinct_nontrivial": max(2, n), "generate_internal_leaves": n,
                    "samples": [{"entry_state": "unknown", "first_events": [e[0] for e in gen_leaves(env, 3)[0].events[:6]]}]}
    res.assumptions = ["mutator structs hold no interior mutability (their fields are bools; checked when they are abstracted)",
                       "the entropy argument is the only other input of generate_internal (C07)"]
    return res


# ----------------------------------------------------------------------------------------
def rule_C11(env):
    res = Result("C11", "other")
    prog, ctx = env.prog, env.ctx
    spec = env.spec
    loc = PV.op_loc(env, "::generate_internal")
    n = 0
    # P1/P2 on generate_internal
    for ver in (0, 3, 5):
        for g in gen_leaves(env, ver):
            rng = [e for e in g.events if e[0] == "range_iter"]
            if not rng:
                if g.end is None:
                    res.add("P2", "generate_internal/no-loop", "no counted generation loop found", loc)
                continue
            n += 1
            res.count("P1")
            if not GA.out_cleared_before_use(g):
                res.add("P0", "generate_internal/output-not-empty-at-entry", "the output buffer is not cleared before the header is written: "
                        "opcodes of an earlier pickle are counted with this one", loc)
            i_sc = next((i for i, e in enumerate(g.events) if e[0] == "stack_clear"), None)
            i_su = next((i for i, e in enumerate(g.events) if e[0] in ("push", "pop", "pop_empty", "depth_bound") or e[0] == "call"), None)
            if i_sc is None or (i_su is not None and i_su < i_sc) or g.h.stack.orig:
                res.add("P0", "generate_internal/stack-not-empty-at-entry", "the simulated stack is not cleared before the first body opcode: "
                        "the collapse tail is no longer bounded by 2T+1", loc)
            lo, hi = rng[0][1], rng[0][2]
            if lo != 0:
                res.add("P2", "generate_internal/loop-start", "generation loop starts at %r" % (lo,), loc)
            h = g.h
            mn, mx = h.special["min_opcodes"], h.special["max_opcodes"]
            okshape = False
            if hi is mn:
                # taken when range == 0, i.e. max <= min
                okshape = True
            elif is_sym(hi) and hi.op in ("add", "sat_add") and hi.args[0] is mn and is_sym(hi.args[1]):
                d = hi.args[1]
                rel = d.attrs.get("rel") or []
                ra = d.attrs.get("rel_args") or []
                if (("lt_arg", 0) in rel or ("le_arg", 0) in rel) and ra and is_sym(ra[0]) and ra[0].op == "sat_sub" and ra[0].args[0] is mx and ra[0].args[1] is mn and d.lo >= 0:
                    okshape = True
            elif is_sym(hi) and hi.op == "draw":
                rel = hi.attrs.get("rel") or []
                ra = hi.attrs.get("rel_args") or []
                if len(ra) == 2 and ra[0] is mn and ra[1] is mx and ("lt_arg", 1) in rel and hi.lo >= 0:
                    okshape = True
            if not okshape:
                res.add("P1", "generate_internal/target", "loop bound %r is not min_opcodes + draw<(max-min) (or min_opcodes when max<=min)" % (hi,), loc)
            # P2: one emit_and_process per iteration, iterations separated by get_valid_opcodes
            calls = [e[1] for e in g.events if e[0] == "call" and e[1] in ("get_valid_opcodes", "emit_and_process")]
            for i, c in enumerate(calls):
                if c == "emit_and_process" and (i == 0 or calls[i - 1] != "get_valid_opcodes"):
                    res.add("P2", "generate_internal/emits-per-iteration", "more than one emit_and_process per loop iteration", loc)
    res.floor("P1", 4, "generate_internal leaves with the loop")
    PV.proto_invariant_premise(env, res, "C11")
    # P3/P4 on every emission leaf (safe and unsafe)
    nleaf = 0
    for unsafe in (False, True):
        tr = PV.get_trans(env, unsafe)
        for op, lvs in tr.items():
            if isinstance(lvs, Exception):
                res.add("engine", "unanalysable/%s" % op, "arm %s cannot be analysed: %s" % (op, lvs), PV.op_loc(env, "::emit_and_process"))
                continue
            for lf in lvs:
                if not lf.can_emit or lf.end is not None or not PV.leaf_applies(lf, env):
                    continue
                nleaf += 1
                res.count("P3")
                parts, _ = E.final_parts(lf.writes)
                dec = E.decode_stream(parts, spec) if parts else []
                cnt = len(dec)
                broken = [p for row, info, pr in dec for p in pr if row is None or "missing" in p or "truncated" in p or "unterminated" in p
                          or "newline" in p or "not escaped" in p]
                if broken and cnt == 1:
                    res.add("P3", "emit_and_process/%s/incomplete" % op,
                            "the bytes emitted for %s are not one complete opcode (%s): the following bytes are read as its argument, so "
                            "body opcodes and decoded opcodes no longer correspond one to one" % (op, broken[0]),
                            PV.op_loc(env, "::emit_and_process"), PV.sample(lf, broken))
                if any(row is not None and row["name"] == "STOP" for row, info, pr in dec):
                    res.add("P3", "emit_and_process/%s/stop-in-body" % op, "a body opcode writes STOP: the decoded pickle ends there, whatever the opcode budget says",
                            PV.op_loc(env, "::emit_and_process"), PV.sample(lf, []))
                if cnt != 1:
                    res.add("P3", "emit_and_process/%s/opcodes-%d" % (op, cnt),
                            "a chosen body opcode %s contributes %d opcodes to the output on a feasible path (must be exactly one)" % (op, cnt),
                            PV.op_loc(env, "::emit_and_process"), PV.sample(lf, []))
                if len(lf.post) - len(lf.pre) > 1:
                    res.add("P4", "process_stack_ops/%s/net-push" % op, "%s grows the simulated stack by %d (>1)" % (op, len(lf.post) - len(lf.pre)), PV.op_loc(env, "::process_stack_ops"))
    res.floor("P3", 600, "emission leaves")
    # P5 collapse phase
    lvs = env.memo("cleanup_leaves", lambda: GA.cleanup_leaves(env))
    for lf in lvs:
        if lf.end is not None:
            continue
        res.count("P5")
        d0 = len(lf.pre)
        m0 = sum(1 for c in lf.pre if c["kinds"] == frozenset(["Mark"]))
        if len(lf.steps) > d0 + m0 + 1:
            res.add("P5", "cleanup_for_stop/length", "collapse phase emits %d opcodes for %d items and %d MARKs (bound: items + marks + 1)" % (len(lf.steps), d0, m0),
                    PV.op_loc(env, "::cleanup_for_stop"))
        for s in lf.steps:
            if not s["events"] or s["events"][0][0] != "out":
                res.add("P5", "cleanup_for_stop/step-without-opcode", "a collapse step writes no opcode", PV.op_loc(env, "::cleanup_for_stop"))
    res.floor("P5", 20, "collapse leaves")
    res.coverage = {"explanation": "structural premises P1-P5 of the size lemma (DESIGN.md C11) checked on the interpreted leaves: P1 target term shape and "
                    "range, P2 one emit_and_process per counted iteration, P3 every feasible emission leaf (safe and unsafe, incl. type-confusion rewrites) "
                    "decodes to exactly one opcode, P4 net stack growth <= 1 per opcode, P5 collapse tail <= items + marks + 1. The closing arithmetic "
                    "(tail <= 2T+1, totals) is the fixed pen-and-paper lemma.",
                    "evaluations": nleaf + n, "distinct_nontrivial": max(2, nleaf), "samples": [{"premise": "P3", "emission_leaves": nleaf}]}
    res.assumptions = ["choose_index(n) in [0,n) (C18)", "the lemma P1-P5 => bounds is not machine-checked"]
    res.undecided = ["numeric totals follow from the premises by the lemma in DESIGN.md (pen and paper)"]
    return res
