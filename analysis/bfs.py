"""Breadth-first pass (DESIGN.md 3.4, second half): the extracted leaves are used as a transition
relation over concrete kind-level states, starting from the empty stack; an independent
concrete reference machine runs in lock-step.  Cross-checks the inductive argument on
*reachable* states (guards against an invariant that is too weak) and yields the C12 witnesses."""
import collections

import refmachine as R


def _match(leaf, stack, memo):
    P = leaf.pre
    n = len(stack)
    if leaf.base_open:
        if len(P) > n:
            return False
    else:
        if leaf.bound_hit:
            if len(P) > n:
                return False
        elif len(P) != n:
            return False
    for d, c in enumerate(P):
        if stack[n - 1 - d] not in c["kinds"]:
            return False
    if leaf.memo_n0 is not None and leaf.memo_n0 != len(memo):
        return False
    return True


def _succ(leaf, stack, memo):
    """successor (stack, memo) of a matched leaf; may yield several (symbolic memo keys)"""
    n = len(stack)
    kv_kind = {}
    for d, c in enumerate(leaf.pre):
        if c["kv"] is not None:
            kv_kind[c["kv"]] = stack[n - 1 - d]
    base = list(stack[:n - len(leaf.pre)])
    variants = [[]]
    for c in leaf.post:
        if c["origin"] == "orig" and c["orig_depth"] is not None and c["orig_depth"] < len(leaf.pre):
            ks = [stack[n - 1 - c["orig_depth"]]]
        elif c["kv"] is not None and c["kv"] in kv_kind:
            ks = [kv_kind[c["kv"]]]
        elif c["kvl"] and c["kvl"].startswith("m"):
            lab = c["kvl"][1:]
            if lab.isdigit():
                k = int(lab)
                ks = [memo[k]] if k < len(memo) else []
            else:
                ks = sorted(set(memo))
        else:
            ks = sorted(c["kinds"])
            if len(ks) != 1:
                ks = ks[:1] if not ks else ks
        variants = [v + [k] for v in variants for k in ks]
    new_memo = list(memo)
    for e in leaf.events:
        if e[0] == "memo_put":
            k = e[1]
            cellid = e[2].id
            kind = None
            for c in list(leaf.pre) + list(leaf.post):
                if c["cell"] == cellid:
                    kind = None
            # the stored object is (a copy of) the top of stack before the opcode
            kind = stack[-1] if stack else None
            if isinstance(k, int) and kind is not None:
                if k == len(new_memo):
                    new_memo.append(kind)
                elif k < len(new_memo):
                    new_memo[k] = kind
    for v in variants:
        yield tuple(base + v), tuple(new_memo)


class RefErr(Exception):
    def __init__(self, msg, cls):
        Exception.__init__(self, msg)
        self.cls = cls  # 'depth' (C01) | 'kind' (C03) | 'memo' (C02)


def ref_step(spec, op, rstack, rmemo, sim_top_kind_class=None):
    """concrete class-level reference machine (flat stack).  rstack: tuple of classes bottom->top."""
    sp = spec.spec(op)
    st = list(rstack)

    def compat(cls, allowed):
        return cls == "any" or cls in allowed
    if sp["mark"]:
        if "mark" not in st:
            raise RefErr("no MARK on the stack", "depth")
        dm = st[::-1].index("mark")
        if sp["below_mark"] and len(st) < dm + 2:
            raise RefErr("no item below the MARK", "depth")
        if dm < sp["min_above"]:
            raise RefErr("fewer than %d items above the MARK" % sp["min_above"], "depth")
    else:
        if len(st) < sp["need"]:
            raise RefErr("needs %d items, stack has fewer" % sp["need"], "depth")
        dm = None
    for cl in sp["kinds"]:
        if "at" in cl:
            if not compat(st[-1 - cl["at"]], cl["is"]):
                raise RefErr("operand at depth %d is %s, required %s" % (cl["at"], st[-1 - cl["at"]], "/".join(cl["is"])), "kind")
        elif "below_mark" in cl:
            if not compat(st[-2 - dm], cl["below_mark"]):
                raise RefErr("operand below MARK is %s, required %s" % (st[-2 - dm], "/".join(cl["below_mark"])), "kind")
        elif "above_even" in cl:
            if dm % 2:
                raise RefErr("odd number of operands above the MARK", "kind")
        elif "first_above" in cl:
            if not compat(st[-dm], cl["first_above"]):
                raise RefErr("operand directly above MARK is %s" % st[-dm], "kind")
        elif "top_not_mark" in cl:
            if st[-1] == "mark":
                raise RefErr("top of stack is a MARK", "kind")
    top = st[-1] if st else None
    npop = (dm + 1 + (1 if sp.get("pop_below") else 0)) if sp["mark"] else sp["pop"]
    if npop:
        del st[len(st) - npop:]
    mem = list(rmemo)
    return st, top, sp, mem


def run(env, res, pid):
    spec = env.spec
    import rules_pvm
    tr = rules_pvm.get_trans(env)
    t2 = rules_pvm.table_T2(env)
    alpha = spec.alpha
    max_steps = 5 if env.tier == "quick" else 7
    max_len = 5 if env.tier == "quick" else 6
    cap = 6000 if env.tier == "quick" else 60000
    protos = sorted(t2)
    tot_states = tot_trans = 0
    witnesses = {}
    first_problem = {}
    for P in protos:
        ops = [o for o in t2[P] if not isinstance(tr.get(o), Exception) and tr.get(o) is not None]
        leaves = {}
        for o in ops:
            ls = []
            for lf in tr[o]:
                if lf.version is not None and int(lf.version[1:]) != P:
                    continue
                if lf.flags.get("allow_ext_opcodes") is False or lf.flags.get("allow_buffer_opcodes") is False:
                    continue
                if lf.mutators_empty is False and lf.end is None and any(e[0] == "mutated" for e in lf.events):
                    continue  # mutated values have the same kind effect
                ls.append(lf)
            leaves[o] = ls
        start = ((), (), (), ())
        seen = {start: None}
        frontier = collections.deque([(start, 0)])
        while frontier and len(seen) < cap:
            (st, mem, rst, rmem), depth = frontier.popleft()
            if depth >= max_steps:
                continue
            for o in ops:
                matched = [lf for lf in leaves[o] if _match(lf, st, mem)]
                if not matched:
                    res.add("bfs", "no-leaf/%s" % o, "breadth-first pass: no leaf of %s covers reachable state %r (leaves do not partition the state space)" % (o, st[-4:]))
                    continue
                for lf in matched:
                    if not lf.can_emit:
                        continue
                    tot_trans += 1
                    if (P, o) not in witnesses:
                        path = []
                        node = (st, mem, rst, rmem)
                        while seen.get(node) is not None:
                            node, via = seen[node]
                            path.append(via)
                        witnesses[(P, o)] = list(reversed(path)) + [o]
                    if lf.end is not None:
                        continue
                    # independent reference step on the reachable state
                    try:
                        nst, top, sp, nmem = ref_step(spec, o, rst, rmem)
                    except RefErr as e:
                        want = {"C01": ("depth",), "C03": ("kind",), "C02": ("kind",), "C17": ()}.get(pid, ())
                        if e.cls in want and not (pid == "C02" and "MARK" not in str(e)):
                            k = "%s/%s" % (o, str(e)[:40])
                            if k not in first_problem:
                                first_problem[k] = (P, o, st, str(e))
                        continue
                    for sst, smem in _succ(lf, st, mem):
                        # reference push
                        rs = list(nst)
                        push = sp["push"]
                        if push == "alias_top":
                            rs.append(top)
                        elif push == "memo":
                            # class of the memo entry the simulation fetched (same key by R02.d)
                            rs.append(alpha.get(sst[-1], "any") if sst else "any")
                        elif push:
                            rs.append(push)
                        rm = list(rmem)
                        if sp["memo"] in ("put", "memoize") and top is not None:
                            if len(smem) == len(rm) + 1:
                                rm.append(top)
                        # Inv(sim, ref)
                        bad = None
                        if len(rs) != len(sst):
                            bad = "depth differs from the reference"
                        else:
                            for i, (a, b) in enumerate(zip(sst, rs)):
                                ca = alpha.get(a)
                                if (ca == "mark") != (b == "mark"):
                                    bad = "MARK position differs"
                                    break
                                if b != "any" and ca != b:
                                    bad = "kind differs: simulation %s, reference %s" % (ca, b)
                                    break
                        if bad is None and len(smem) != len(rm):
                            bad = "memo size %d vs reference %d" % (len(smem), len(rm))
                        if bad:
                            if pid == "C17":
                                k = "%s/%s" % (o, bad[:40])
                                if k not in first_problem:
                                    first_problem[k] = (P, o, st, bad)
                            continue
                        if len(sst) > max_len or len(smem) > 2:
                            continue
                        node = (sst, smem, tuple(rs), tuple(rm))
                        if node not in seen:
                            seen[node] = ((st, mem, rst, rmem), o)
                            frontier.append((node, depth + 1))
        tot_states += len(seen)
    for k, (P, o, st, why) in first_problem.items():
        res.add("bfs", "reachable/%s/%s" % (o, why[:50].replace(" ", "_")),
                "breadth-first pass (protocol %d): on reachable simulated stack %r the opcode %s is enabled but: %s" % (P, list(st), o, why))
    env._cache["bfs_witnesses"] = witnesses
    return {"bfs_states": tot_states, "bfs_transitions": tot_trans, "bfs_max_steps": max_steps, "bfs_protocols": protos,
            "bfs_state_cap_per_protocol": cap}


def witness_search(env, max_steps=7, max_len=4, only=None):
    """goal-directed breadth-first search over simulated kind-level states only (no reference
    lock-step): shortest choice sequence from the empty state to a state enabling each opcode."""
    import rules_pvm
    tr = rules_pvm.get_trans(env)
    t2 = rules_pvm.table_T2(env)
    witnesses = {}
    stats = {"states": 0, "transitions": 0}
    # kinds that no leaf distinguishes are merged (Int/Float/Bool/... behave alike for every guard)
    sigs = {}
    allk = set()
    for o, lvs in tr.items():
        if isinstance(lvs, Exception):
            continue
        for lf in lvs:
            for c in list(lf.pre) + list(lf.post):
                allk |= set(c["kinds"])
    for k in allk:
        sigs[k] = []
    for o, lvs in tr.items():
        if isinstance(lvs, Exception):
            continue
        for lf in lvs:
            for c in lf.pre:
                ks = c["kinds"]
                for k in allk:
                    sigs[k].append(k in ks)
    rep = {}
    bysig = {}
    for k in sorted(allk):
        s = tuple(sigs[k])
        bysig.setdefault(s, k)
        rep[k] = bysig[s]
    stats["kind_classes"] = len(set(rep.values()))
    for P in sorted(t2):
        ops = [o for o in t2[P] if not isinstance(tr.get(o), Exception) and tr.get(o) is not None]
        leaves = {}
        for o in ops:
            ls = []
            for lf in tr[o]:
                if P not in rules_pvm.applicable_protocols(lf, env):
                    continue
                if lf.flags.get("allow_ext_opcodes") is False or lf.flags.get("allow_buffer_opcodes") is False:
                    continue
                if lf.mutators_empty is False:
                    continue
                ls.append(lf)
            leaves[o] = ls
        want = set(ops)
        if only is not None:
            want = {o for o in ops if (P, o) in only}
            if not want:
                continue
        start = ((), ())
        seen = {start: None}
        frontier = collections.deque([(start, 0)])
        while frontier and want - {k for (p, k) in witnesses if p == P}:
            (st, mem), depth = frontier.popleft()
            if depth >= max_steps:
                continue
            for o in ops:
                for lf in leaves[o]:
                    if not lf.can_emit or not _match(lf, st, mem):
                        continue
                    stats["transitions"] += 1
                    if (P, o) not in witnesses:
                        path = []
                        node = (st, mem)
                        while seen.get(node) is not None:
                            node, via = seen[node]
                            path.append(via)
                        witnesses[(P, o)] = list(reversed(path)) + [o]
                    if lf.end is not None:
                        continue
                    for sst, smem in _succ(lf, st, mem):
                        if len(sst) > max_len or len(smem) > 1:
                            continue
                        node = (tuple(rep.get(x, x) for x in sst), tuple(rep.get(x, x) for x in smem))
                        if node not in seen:
                            seen[node] = ((st, mem), o)
                            frontier.append((node, depth + 1))
        stats["states"] += len(seen)
    return witnesses, stats
