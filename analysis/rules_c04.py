"""C04: every output, even with unsafe mutations, is a well-formed opcode stream."""
import emission as E
import rules_pvm as PV
import gen_analysis as GA
import mutsum
import harness as H
from framework import Result
from values import is_sym, bounds, Unanalysable


def emission_findings(env, res, tr, mode, pid="C04"):
    """R04.b/R04.c on every emission leaf.  Returns (#leaves, #opcodes decoded, samples)"""
    spec = env.spec
    n = nd = 0
    samples = []
    loc_e = PV.op_loc(env, "::emit_and_process")
    for op, lvs in tr.items():
        if isinstance(lvs, Exception):
            res.add("engine", "unanalysable/%s/%s" % (mode, op), "opcode arm %s cannot be analysed in %s mode (fails closed): %s" % (op, mode, lvs), loc_e)
            continue
        for lf in lvs:
            if not lf.can_emit or lf.end is not None or not PV.leaf_applies(lf, env):
                continue
            n += 1
            res.count("R04.b")
            parts, probs = E.final_parts(lf.writes)
            for p in probs:
                res.add("R04.c", "emit_and_process/%s/%s" % (op, p.split(":")[0][:50].replace(" ", "_")),
                        "%s (%s mode): %s" % (op, mode, p), loc_e, PV.sample(lf, [p]))
            if not parts:
                continue  # skipped emission: C11 P3
            decoded = E.decode_stream(parts, spec)
            nd += len(decoded)
            if len(decoded) != 1:
                res.add("R04.b", "emit_and_process/%s/opcode-count" % op,
                        "%s (%s mode): one emission decodes to %d opcodes" % (op, mode, len(decoded)), loc_e, PV.sample(lf, []))
            rewritten = any(e[0] == "post_process_rewrite" for e in lf.events)
            for row, info, pr in decoded:
                name = row["name"] if row else "?"
                if row is not None and not rewritten and spec.row(op) is not None and row["name"] != spec.row(op)["name"]:
                    same_family = op in INT_FAMILY and row["name"] in [spec.row(x)["name"] for x in INT_FAMILY]
                    if not same_family:
                        pr = pr + ["arm %s writes opcode %s" % (op, row["name"])]
                pr = pr + domain_clauses(row, info)
                if row is not None and row["name"] == "STOP":
                    pr = pr + ["STOP emitted inside the body"]
                for p in pr:
                    res.add("R04.b", "%s/%s/%s" % ("post_process" if rewritten else "emit_and_process", op if not rewritten else name,
                                                   p.split(":")[0][:60].replace(" ", "_")),
                            "%s%s (%s mode) emits a malformed %s: %s" % (op, " rewritten by a mutator" if rewritten else "", mode, name, p),
                            loc_e, PV.sample(lf, [p]))
            if len(samples) < 6 and parts:
                samples.append({"op": op, "mode": mode, "emitted": repr(E.flatten(parts))[:300]})
    return n, nd, samples


INT_FAMILY = ("Int", "Long", "Long1", "Long4", "BinInt", "BinInt1", "BinInt2")


def domain_clauses(row, info):
    """domain of argument values the format allows (C04 statement)"""
    if row is None:
        return []
    out = []
    name = row["name"]
    v = info.get("value")
    if name in ("EXT1", "EXT2", "EXT4"):
        if v is None:
            return ["EXT code not decodable"]
        sv = E.strip_casts(v)
        lo, hi = (sv, sv) if isinstance(sv, int) else (sv.lo, sv.hi)
        if lo < 1:
            out.append("EXT code may be %d: extension codes are >= 1" % lo)
        if name == "EXT4" and hi > (1 << 31) - 1:
            out.append("EXT4 code may be %d: the int4 argument decodes values above 2^31-1 as negative" % hi)
    if name in ("PUT", "GET"):
        if v is not None and not isinstance(v, int):
            if v.lo < 0:
                out.append("memo index may be negative")
        elif isinstance(v, int) and v < 0:
            out.append("memo index is negative")
        if v is None and "line" in info:
            ln = info["line"]
            if len(ln) == 1 and ln[0][0] == "lit":
                try:
                    if int(ln[0][1]) < 0:
                        out.append("memo index is negative")
                except ValueError:
                    pass
    if name == "BINSTRING" and v is not None:
        sv = E.strip_casts(v)
        lo = sv if isinstance(sv, int) else sv.lo
        if lo < 0:
            out.append("BINSTRING length may be negative")
    return out


def rule_C04(env):
    res = Result("C04", "proof")
    spec = env.spec
    prog, ctx = env.prog, env.ctx
    obligations = 0
    # R04.a: byte table
    import tables
    t1 = env.memo("T1", lambda: tables.extract_T1(prog, ctx))
    seen = {}
    loc_t1 = PV.op_loc(env, "OpcodeKind::as_u8")
    for name, byte in t1.items():
        obligations += 1
        res.count("R04.a")
        row = spec.row(name)
        if row is None:
            res.add("R04.a", "as_u8/%s/no-reference-row" % name, "OpcodeKind::%s has no counterpart in the reference opcode table" % name, loc_t1)
            continue
        if row["code"] != byte:
            res.add("R04.a", "as_u8/%s/byte" % name, "OpcodeKind::%s.as_u8() = 0x%02x, reference %s = 0x%02x" % (name, byte, row["name"], row["code"]), loc_t1)
        if byte in seen:
            res.add("R04.a", "as_u8/%s/duplicate" % name, "byte 0x%02x is used by both %s and %s" % (byte, seen[byte], name), loc_t1)
        seen[byte] = name
    res.floor("R04.a", 68, "OpcodeKind variants")
    PV.proto_invariant_premise(env, res, "C04")
    # R04.b: emission grammar, safe and unsafe configurations
    n_s, nd_s, samp_s = emission_findings(env, res, PV.get_trans(env, False), "safe")
    n_u, nd_u, samp_u = emission_findings(env, res, PV.get_trans(env, True), "unsafe")
    obligations += n_s + n_u
    res.floor("R04.b", 600, "emission leaves (safe+unsafe)")
    # collapse phase + STOP + header: argument-less opcodes / PROTO
    lvs = env.memo("cleanup_leaves", lambda: GA.cleanup_leaves(env))
    for lf in lvs:
        for s in lf.steps:
            obligations += 1
            row = spec.row(s["op"])
            if row is None or row["arg"] is not None:
                res.add("R04.b", "cleanup_for_stop/%s/argument" % s["op"], "collapse phase emits %s through emit_opcode, which writes no argument" % s["op"],
                        PV.op_loc(env, "::cleanup_for_stop"))
            if row is not None and row["name"] == "STOP":
                res.add("R04.d", "cleanup_for_stop/stop", "collapse phase emits STOP", PV.op_loc(env, "::cleanup_for_stop"))
    # R04.c: a post_process rewrite replaces the whole emission: every effect starts by truncating to the
    # snapshot length, so a chain of rewrites by several mutators equals the last one (this is why one
    # abstract mutator per emission suffices in the unsafe transitions)
    table = mutsum.MutatorTable(prog)
    mf = H.models_factory(prog, ctx, None)
    for first in [None] + sorted(r["code"] for r in spec.table):
        for nonempty in ((True,) if first is not None else (True, False)):
            summ = mutsum.summarise_post_process(prog, ctx, table, first, nonempty, None, mf)
            obligations += 1
            res.count("R04.c")
            for e in summ["effects"]:
                eff = e["effect"]
                kinds = [w[0] for w in eff]
                if kinds[:1] != ["truncate_to_snapshot"] or any(k != "out" for k in kinds[1:]):
                    res.add("R04.c", "post_process/%s/effect-shape" % e["self_ty"].split("::")[-1],
                            "%s::post_process modifies the output other than by replacing the whole emission (truncate to the snapshot, then append): %r" % (e["self_ty"], kinds))
                if not any(dict(e["flags"]).get(k) for k in dict(e["flags"])) and not any(v is True for _, v in e["flags"]):
                    res.add("R04.c", "post_process/%s/ungated" % e["self_ty"].split("::")[-1],
                            "%s::post_process rewrites output without its unsafe_mode being set" % e["self_ty"])
    hdr = header_findings(env, res)
    obligations += hdr
    nviol = len(res.findings)
    res.coverage = {
        "obligations": obligations,
        "discharged": obligations - nviol if nviol <= obligations else 0,
        "checker_cmd": "./check C04 --tier %s" % env.tier,
        "trusted_base": ["reference/opcodes.json (CPython pickletools.opcodes)", "rustc MIR export", "models of std String/Vec/format! in analysis/models*.py",
                         "Rust Display for integers/f64 yields text accepted by Python int()/float()", "Rust String is valid UTF-8"],
        "emission_leaves_safe": n_s, "emission_leaves_unsafe": n_u, "opcodes_decoded": nd_s + nd_u,
        "samples": samp_s[:3] + samp_u[:3],
        "exhaustive": True,
    }
    res.assumptions = ["payload charsets/lengths are computed from the generators and every Mutator::mutate_string/bytes impl (joined)",
                       "unsafe mode = unsafe_mutations and mutators' unsafe_mode unconstrained; up to 2 post_process rewrites per emission"]
    return res


def header_findings(env, res):
    """PROTO header / FRAME patch / STOP are well-formed (R04.b for generate_internal's own writes)"""
    spec = env.spec
    n = 0
    loc = PV.op_loc(env, "::generate_internal")
    for ver in range(6):
        lvs = env.memo(("gen_leaves", ver), lambda ver=ver: GA.generate_internal_leaves(env, ver))
        for g in lvs:
            if g.end is not None or getattr(g.ret, "vname", None) != "Ok":
                continue
            n += 1
            res.count("R04.hdr")
            if not GA.out_cleared_before_use(g):
                res.add("R04.d", "generate_internal/output-not-empty-at-entry",
                        "a generation call appends to Generator.output without clearing it first: on a reused generator the bytes of the previous pickle (with its STOP) precede this one", loc)
            pre = []
            for w in g.writes:
                if w[0] in ("opaque_emission", "opaque_cleanup"):
                    break
                if w[0] == "out":
                    pre.extend(w[1])
            # header = optional PROTO + optional 9 reserved bytes
            cur = E.Cursor(pre)
            if not cur.eof():
                p = cur.peek()
                if p[0] == "lit" and p[1][:1] == bytes([spec.by_norm["PROTO"]["code"]]):
                    row, info, pr = E.decode_one(cur, spec)
                    for x in pr:
                        res.add("R04.b", "generate_internal/proto/%s" % x[:40].replace(" ", "_"), "PROTO header malformed: %s" % x, loc)
            rest = cur.rest()
            lo, hi = E.payload_bytes_len(rest)
            patches = [w for w in g.writes if w[0] == "patch"]
            if rest:
                if not (lo == hi == 9):
                    res.add("R04.b", "generate_internal/frame-reservation", "bytes reserved after the header are not 9: %r" % (rest,), loc)
                if len(patches) != 2:
                    res.add("R04.b", "generate_internal/frame-patch-count", "FRAME reservation is patched %d times, expected opcode + 8-byte length" % len(patches), loc)
            elif patches:
                res.add("R04.b", "generate_internal/patch-without-reservation", "output is patched although no FRAME bytes were reserved", loc)
    res.floor("R04.hdr", 6, "successful generate_internal leaves")
    return n
