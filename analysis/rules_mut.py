"""C15 (rate extremes) and C16 (mutator contracts): every Mutator impl method is interpreted on
symbolic inputs with both entropy sources; rules are evaluated on the result terms."""
import math

import harness as H
import absgen as G
import models as M
import models2 as M2
import mutsum
import entsum
import emission as E
from framework import Result
from interp import Interp, explore, CMP
from values import Agg, Box_, Bytes, Opaque, Payload, Ref, Sym, Unanalysable, bounds, is_none, is_some, is_sym, none, some, INT_TYPES

VALUE_METHODS = ("mutate_int", "mutate_long", "mutate_float", "mutate_string", "mutate_bytes", "mutate_memo_index")
F64_SAMPLES = {
    "unit": [0.0, 2.0 ** -60, 0.5, 1.0 - 2.0 ** -53],
    "any": [float("nan"), float("-inf"), -1.0, -0.0, 0.0, 2.0 ** -60, 0.5, 1.0 - 2.0 ** -53, 1.0, 1.0 + 2.0 ** -52, 5.0, float("inf")],
}


def input_for(name):
    if name == "mutate_int":
        return Sym("value", (), "i32", attrs={"name": "value"})
    if name == "mutate_long":
        return Sym("value", (), "i64", attrs={"name": "value"})
    if name == "mutate_float":
        s = Sym("value", (), "f64", attrs={"name": "value"})
        return s
    if name == "mutate_memo_index":
        return Sym("index", (), "usize", attrs={"name": "index"})
    if name == "mutate_string":
        return Bytes([("pay", Payload("str", range(32, 127), Sym("in_len", (), "usize", 0, 64), origin="input"))], True)
    if name == "mutate_bytes":
        return Bytes([("pay", Payload("bytes", range(256), Sym("in_len", (), "usize", 0, 64), origin="input"))], False)


def impl_leaves(env, self_ty, key, name, unsafe_mode=None, make_input=None):
    prog, ctx = env.prog, env.ctx
    table = env.memo("muttable", lambda: mutsum.MutatorTable(prog))
    mf = H.models_factory(prog, ctx, None)
    out = []

    def one(run):
        I = Interp(prog, run, mf())
        me = table.self_value(self_ty, unsafe_mode)
        val = (make_input or input_for)(name)
        src = G.AbsSource(prog)
        rate = Sym("rate", (), "f64", attrs={"name": "rate"})
        one.last = (I, me, val, rate, None)
        r = I.call(key, [Ref(Box_(me, "mutator"), ()), val, Ref(Box_(src, "source"), ()), rate])
        return (I, me, val, rate, r)
    for run, res, pe in explore(one, max_runs=20000):
        I, me, val, rate, r = res if res is not None else one.last
        out.append({"run": run, "end": pe, "I": I, "me": me, "val": val, "rate": rate, "ret": r})
    return out


def gate_atoms(lf):
    """atoms on this path that compare something with the rate argument"""
    rate = lf["rate"]
    out = []
    for a in lf["run"].atom_log:
        v, outcome, nev = a
        if v.op in CMP and any(x is rate for x in v.args):
            out.append(a)
    return out


def draw_classes(d):
    if isinstance(d, float):
        return [("const", d)]
    cs = d.attrs.get("f64classes")
    if cs:
        return sorted(cs, key=repr)
    return [entsum.f64_class(d)]


def samples_of(cls):
    if cls == "unit":
        return F64_SAMPLES["unit"]
    if isinstance(cls, tuple) and cls[0] == "const":
        return [cls[1]]
    if isinstance(cls, tuple) and cls[0] == "range":
        lo, hi = cls[1], cls[2]
        return [lo, hi, (lo + hi) / 2.0]
    return F64_SAMPLES["any"]


def post_process_leaves(env, self_ty, key, unsafe_mode=None):
    prog, ctx = env.prog, env.ctx
    table = env.memo("muttable", lambda: mutsum.MutatorTable(prog))
    mf = H.models_factory(prog, ctx, None)
    snap_adt = prog.adt_of("mutators::EmissionSnapshot")
    fnames = [f["name"] for f in prog.adts[snap_adt]["variants"][0]["fields"]]
    out = []

    def one(run):
        I = Interp(prog, run, mf())
        me = table.self_value(self_ty, unsafe_mode)
        o = G.AbsOutput(ctx)
        snap_len = o.cur_len
        delta = Bytes([("u8", Sym("opbyte", (), "u8")), ("pay", Payload("bytes", range(256), Sym("rest", (), "usize", 0, 1 << 20), origin="delta_rest"))])
        o.marks.append((snap_len, 0))
        o.writes.append(("out", list(delta.parts)))
        o.cur_len = G.Lin.of(o.cur_len).combine(M.bytes_len(I, delta), 1)
        fields = []
        for n in fnames:
            fields.append(snap_len if n == "output_len" else delta if n == "output_delta" else Sym(n, (), "usize") if n in ("stack_depth", "memo_size") else Opaque(n))
        snap = Agg(snap_adt, 0, fields)
        src = G.AbsSource(prog)
        rate = Sym("rate", (), "f64", attrs={"name": "rate"})
        one.last = (I, me, o, rate, None)
        r = I.call(key, [Ref(Box_(me, "mutator"), ()), Ref(Box_(snap, "snapshot"), ()), Ref(Box_(o, "output"), ()), Ref(Box_(src, "source"), ()), rate])
        return (I, me, o, rate, r)
    for run, res, pe in explore(one, max_runs=20000):
        I, me, o, rate, r = res if res is not None else one.last
        out.append({"run": run, "end": pe, "I": I, "me": me, "out": o, "rate": rate, "ret": r, "val": None})
    return out


# ----------------------------------------------------------------------------------------
def rule_C15(env):
    res = Result("C15", "other")
    prog, ctx = env.prog, env.ctx
    table = env.memo("muttable", lambda: mutsum.MutatorTable(prog))
    ngates = 0
    nleaves = 0
    samples = []
    for name in VALUE_METHODS + ("post_process",):
        for self_ty, key in table.method_keys(name):
            short = self_ty.split("::")[-1]
            lvs = post_process_leaves(env, self_ty, key) if name == "post_process" else impl_leaves(env, self_ty, key, name)
            fires = []
            for lf in lvs:
                nleaves += 1
                if lf["end"] is not None:
                    continue
                r = lf["ret"]
                if name == "post_process":
                    wrote = [e for e in lf["run"].events if e[0] in ("out", "out_truncate", "out_patch", "out_clear")]
                    firing = bool(wrote) or (r is True)
                else:
                    firing = is_some(r)
                if not firing:
                    continue
                fires.append(lf)
                ga = gate_atoms(lf)
                if not ga:
                    res.add("R15.a", "%s/%s/ungated" % (short, name), "%s::%s can apply a mutation on a path that never compares a draw with the rate" % (short, name), env.loc(key))
                    continue
                if name == "post_process":
                    first_write = min(i for i, e in enumerate(lf["run"].events) if e[0] in ("out", "out_truncate", "out_patch", "out_clear")) if wrote else None
                    if first_write is not None and ga[0][2] > first_write:
                        res.add("R15.a", "%s/%s/write-before-gate" % (short, name), "%s::post_process writes to the output before the rate gate" % short, env.loc(key))
                # R15.b gate semantics: collected per method below (all comparisons with the rate on the path form the gate)
                v, outcome, _ = ga[0]
                rate = lf["rate"]
                draw = v.args[0] if v.args[1] is rate else v.args[1]
                draw_first = v.args[1] is rate
                classes = draw_classes(draw) if is_sym(draw) or isinstance(draw, float) else ["any"]
                lf["_gate"] = [(x.op, x.args[1] is rate, oc) for x, oc, _ in ga
                               if (x.args[0] is draw and x.args[1] is rate) or (x.args[1] is draw and x.args[0] is rate)]
                lf["_classes"] = classes
                lf["_gate_show"] = v.show()
                if len(samples) < 6:
                    samples.append({"mutator": short, "method": name, "gate": v.show(), "taken_when": outcome, "draw_classes": [repr(c) for c in classes]})
            if fires:
                ngates += 1
                res.count("gates")
                # a firing path is open for (draw d, rate r) when every gate comparison on it evaluates to the outcome the path took.
                # rate 0.0: no firing path may be open for any draw value; rate 1.0: for every draw value some firing path is open.
                allcls = []
                for lf in fires:
                    for c in lf.get("_classes", []):
                        if c not in allcls:
                            allcls.append(c)

                def open_(lf, d, rt):
                    return all((CMP[op](d, rt) if dfirst else CMP[op](rt, d)) == oc for op, dfirst, oc in lf.get("_gate", []))
                gated = [lf for lf in fires if lf.get("_gate")]
                for cls in allcls:
                    for d in samples_of(cls):
                        if any(open_(lf, d, 0.0) for lf in gated if cls in lf["_classes"]):
                            res.add("R15.b", "%s/%s/rate-0" % (short, name), "%s::%s: the gate (%s) opens (mutation applied) at rate 0.0 when the draw is %r (draw class %r)" % (
                                short, name, gated[0]["_gate_show"], d, cls), env.loc(key))
                        if gated and not any(open_(lf, d, 1.0) for lf in gated if cls in lf["_classes"]):
                            res.add("R15.b", "%s/%s/rate-1" % (short, name), "%s::%s: the gate (%s) stays closed (no mutation) at rate 1.0 when the draw is %r (draw class %r)" % (
                                short, name, gated[0]["_gate_show"], d, cls), env.loc(key))
    res.floor("gates", 14, "gated mutator methods")
    # R15.c: first-applicable-mutator-wins loops in generator::mutation
    nloops = loop_rules(env, res)
    res.coverage = {"explanation": "every impl of every Mutator method (found through the impl table, incl. provided defaults) is interpreted with a symbolic value, "
                    "symbolic rate and both entropy sources; on each path that applies a mutation the first comparison involving `rate` is the gate; the gate predicate is "
                    "evaluated as an IEEE comparison over the value classes the draw can take (derived by interpreting the EntropySource method it comes from: unit "
                    "interval, arbitrary bit pattern, fallback constant) for rate 0.0 and 1.0 (finite table, no sampling of the program); the six value loops and the "
                    "post-process loop of generator::mutation are interpreted with abstract mutators.",
                    "evaluations": nleaves, "distinct_nontrivial": max(2, ngates), "gated_methods": ngates, "mutation_loops": nloops, "samples": samples}
    res.assumptions = ["rand::Rng::random::<f64>() lies in [0,1); Unstructured::arbitrary::<T>() is any value of T or Err"]
    return res


def loop_rules(env, res):
    prog, ctx = env.prog, env.ctx
    mf0 = H.models_factory(prog, ctx, None)
    n = 0
    for name in VALUE_METHODS:
        gname = {"mutate_long": "_mutate_long"}.get(name, name)
        try:
            key = prog.find("generator::mutation::<impl generator::Generator>::" + gname)
        except Unanalysable:
            try:
                key = prog.find("::" + gname + "", kind="fn") if False else prog.find("Generator>::" + gname)
            except Unanalysable as e:
                res.add("R15.c", "%s/anchor" % name, "value-mutation loop %s not found: %s" % (gname, e))
                continue
        n += 1
        res.count("R15.c")

        def one(run, key=key, name=name):
            mods = mf0()
            calls = []

            def virt(I, f, a):
                nm = f["name"]
                calls.append((nm, a[1], a[3] if len(a) > 3 else None))
                c = I.run.choose(2, "mutator returns Some")
                if c:
                    v = Sym("mutated%d" % len(calls), (), "i64") if "string" not in name and "bytes" not in name else Bytes([("lit", b"M%d" % len(calls))], "string" in name)
                    calls[-1] = calls[-1] + (v,)
                    return some(v)
                calls[-1] = calls[-1] + (None,)
                return none()
            mods.extra["virtual"] = virt
            I = Interp(prog, run, mods)
            ms = G.AbsMutators(ctx, max_iter=3)
            if run.choose(2, "mutator list known to be non-empty") == 1:
                ms.empty = False        # whatever else the generator's fields say, a registered mutator must be consulted
            h = ctx.make_generator(depth_bound=2, mutators=ms)
            val = input_for(name)
            src = G.AbsSource(prog)
            one.last = (h, val, calls, None)
            r = I.call(key, [h.ref(), val, Ref(Box_(src, "source"), ())])
            return (h, val, calls, r)
        for run, rr, pe in explore(one):
            h, val, calls, r = rr if rr is not None else one.last
            if pe is not None:
                res.add("R15.c", "%s/ends" % name, "Generator::%s does not return normally: %s" % (name, pe.info), env.loc(key))
                continue
            rate = h.special["mutation_rate"]
            for i, c in enumerate(calls):
                nm, arg, rt, ret = c
                if nm != name:
                    res.add("R15.c", "%s/wrong-method" % name, "Generator::%s calls Mutator::%s" % (name, nm), env.loc(key))
                if rt is not rate:
                    res.add("R15.c", "%s/rate-not-forwarded" % name, "Generator::%s passes %r as the rate, not self.mutation_rate" % (name, rt), env.loc(key))
                if ret is not None and i != len(calls) - 1:
                    res.add("R15.c", "%s/continues-after-some" % name, "Generator::%s keeps calling mutators after one returned Some (first applicable mutator must win)" % name, env.loc(key))
                if not same_value(arg, val):
                    res.add("R15.c", "%s/value-not-forwarded" % name, "Generator::%s hands the mutator %r, not the value being mutated" % (name, arg), env.loc(key))
            somes = [c[3] for c in calls if c[3] is not None]
            if somes:
                if not same_value(r, somes[0]):
                    res.add("R15.c", "%s/result-not-first-some" % name, "Generator::%s does not return the first mutator's result" % name, env.loc(key))
            else:
                if not same_value(r, val):
                    res.add("R15.c", "%s/result-not-original" % name, "Generator::%s alters the value although no mutator applied" % name, env.loc(key))
                rate_decided = any(G.contains_obj(a[0], h.special["mutation_rate"]) for a in run.atom_log)
                if h.mutators.empty is False and len(calls) == 0 and not rate_decided:
                    why = h.extra_gen_read_at_entry(run.atom_log, ())
                    res.add("R15.c", "%s/skips-mutators" % name, "Generator::%s can return the value unmutated without consulting the registered mutators%s" % (
                        name, (" (decided by Generator.%s, which is neither the mutator list nor the rate)" % ", ".join(why)) if why else ""), env.loc(key))
    res.floor("R15.c", 6, "value-mutation loops")
    return n


def same_value(a, b):
    if a is b:
        return True
    if isinstance(a, Bytes) and isinstance(b, Bytes):
        return len(a.parts) == len(b.parts) and all(x is y or x == y for x, y in zip(a.parts, b.parts))
    return False


# ----------------------------------------------------------------------------------------
FAMILY = {}
for fam, names in {"int": "INT BININT BININT1 BININT2 LONG LONG1 LONG4", "float": "FLOAT BINFLOAT",
                   "str": "STRING UNICODE SHORT_BINUNICODE BINUNICODE BINUNICODE8",
                   "bytes": "BINBYTES SHORT_BINBYTES BINBYTES8 BINSTRING SHORT_BINSTRING BYTEARRAY8",
                   "list": "EMPTY_LIST LIST", "tuple": "EMPTY_TUPLE TUPLE TUPLE1 TUPLE2 TUPLE3", "dict": "EMPTY_DICT DICT",
                   "none": "NONE", "bool": "NEWTRUE NEWFALSE", "set": "EMPTY_SET FROZENSET"}.items():
    for nm in names.split():
        FAMILY[nm] = fam


def strip(v):
    return E.strip_casts(v)


def rule_C16(env):
    res = Result("C16", "other")
    prog, ctx = env.prog, env.ctx
    spec = env.spec
    table = env.memo("muttable", lambda: mutsum.MutatorTable(prog))
    nleaves = 0
    samples = []
    seen_types = set()

    def fired(name, self_ty, key, unsafe_mode=None, make_input=None):
        out = []
        for lf in impl_leaves(env, self_ty, key, name, unsafe_mode, make_input):
            if lf["end"] is not None:
                res.add("panic", "%s/%s/%s" % (self_ty.split("::")[-1], name, lf["end"].kind),
                        "%s::%s can %s: %s" % (self_ty.split("::")[-1], name, "panic" if lf["end"].kind == "panic" else "not return", lf["end"].info), env.loc(key))
                continue
            if lf["run"].panics:
                res.add("panic", "%s/%s/site" % (self_ty.split("::")[-1], name), "%s::%s has a reachable panic site %r" % (self_ty.split("::")[-1], name, lf["run"].panics[0]), env.loc(key))
            if is_some(lf["ret"]):
                out.append(lf)
        return out

    for name in VALUE_METHODS:
        for self_ty, key in table.method_keys(name):
            short = self_ty.split("::")[-1]
            seen_types.add(short)
            if key.startswith(table.trait + "::"):
                continue  # provided default: returns None (checked: no firing leaf)
            lvs = fired(name, self_ty, key)
            for lf in lvs:
                nleaves += 1
                res.count("contract")
                r = lf["ret"].fields[0]
                val = lf["val"]
                probs = contract(short, name, r, val, lf)
                for p in probs:
                    slug = "result-shape" if p.startswith("result ") else p.split(":")[0][:50].replace(" ", "_")
                    res.add("contract", "%s/%s/%s" % (short, name, slug), "%s::%s violates its contract: %s" % (short, name, p), env.loc(key),
                            {"result": repr(r)[:300]})
                if len(samples) < 8 and not probs:
                    samples.append({"mutator": short, "method": name, "result_term": repr(r)[:160]})
    # the Mutator trait is public: strings with multi-byte characters are inputs too (the generator itself only passes ASCII).
    # Decided for them: no panic (byte offsets used as character positions), and the same contract clauses.
    def non_ascii(name):
        return Bytes([("pay", Payload("str", list(range(32, 127)) + [0xC3, 0xA9, 0xE2, 0x82, 0xAC, 0xF0, 0x9F, 0x98, 0x80],
                                      Sym("in_len", (), "usize", 0, 64), origin="input"))], True)
    for self_ty, key in table.method_keys("mutate_string"):
        if key.startswith(table.trait + "::"):
            continue
        short = self_ty.split("::")[-1]
        for lf in fired("mutate_string", self_ty, key, None, non_ascii):
            nleaves += 1
            res.count("contract-nonascii")
            if short == "StringLengthMutator":
                for p in contract(short, "mutate_string", lf["ret"].fields[0], lf["val"], lf):
                    slug = "result-shape" if p.startswith("result ") else p.split(":")[0][:50].replace(" ", "_")
                    res.add("contract", "%s/mutate_string/non-ascii/%s" % (short, slug), "%s::mutate_string violates its contract on a string with multi-byte characters: %s" % (short, p), env.loc(key))
    # provided defaults never fire
    for name in VALUE_METHODS:
        dk = table.trait + "::" + name
        if dk in prog.bodies:
            for lf in impl_leaves(env, table.impls[0]["self_ty"], dk, name):
                if lf["end"] is None and is_some(lf["ret"]):
                    res.add("contract", "default/%s" % name, "the provided Mutator::%s returns Some" % name, env.loc(dk))
    # type confusion: post_process effects per emitted opcode byte
    tc = [s for s, k in table.method_keys("post_process") if not k.startswith(table.trait + "::")]
    mf = H.models_factory(prog, ctx, None)
    for row in spec.table:
        for unsafe_mode in (True, False):
            summ = mutsum.summarise_post_process(prog, ctx, table, row["code"], True, unsafe_mode, mf)
            res.count("typeconfusion")
            for p in summ["panics"]:
                res.add("panic", "post_process/%s" % row["name"], "post_process can panic on %s: %s" % (row["name"], p[2]))
            for e in summ["effects"]:
                short = e["self_ty"].split("::")[-1]
                if not unsafe_mode:
                    res.add("contract", "%s/post_process/safe-mode-write" % short, "%s::post_process rewrites %s although unsafe_mode is false" % (short, row["name"]))
                    continue
                fam = FAMILY.get(row["name"])
                if fam is None:
                    res.add("contract", "%s/post_process/rewrites-%s" % (short, row["name"]),
                            "%s::post_process rewrites %s, which is not a value-pushing opcode of a known kind" % (short, row["name"]))
                    continue
                kinds = [w[0] for w in e["effect"]]
                if kinds != ["truncate_to_snapshot", "out"]:
                    res.add("contract", "%s/post_process/effect-shape" % short, "%s::post_process effect on %s is %r, expected: replace the whole emission by one opcode" % (short, row["name"], kinds))
                    continue
                dec = E.decode_stream(e["effect"][1][1], spec)
                if len(dec) != 1 or dec[0][0] is None or dec[0][2]:
                    res.add("contract", "%s/post_process/replacement-malformed" % short, "replacement for %s is not one complete opcode: %r" % (row["name"], [(d[0] and d[0]["name"], d[2]) for d in dec]))
                    continue
                nfam = FAMILY.get(dec[0][0]["name"])
                if nfam is None:
                    res.add("contract", "%s/post_process/replacement-kind" % short, "replacement %s for %s is not a value-pushing opcode" % (dec[0][0]["name"], row["name"]))
                elif nfam == fam:
                    res.add("contract", "%s/post_process/same-kind" % short, "%s is replaced by %s, which pushes the same kind (%s)" % (row["name"], dec[0][0]["name"], fam))
    res.floor("contract", 20, "firing leaves")
    for need in ("BitFlipMutator", "BoundaryMutator", "OffByOneMutator", "StringLengthMutator", "CharacterMutator", "MemoIndexMutator", "TypeConfusionMutator"):
        if need not in seen_types:
            res.add("anchor", "impl/%s" % need, "mutator %s has no Mutator impl" % need)
    res.coverage = {"explanation": "term-shape and interval clauses on the result of every firing path of every Mutator impl method (symbolic input, both entropy sources); "
                    "type confusion: post_process effect summaries for each of the 68 opcode bytes in safe and unsafe mode, replacement decoded with the reference readers.",
                    "evaluations": nleaves, "distinct_nontrivial": max(2, nleaves), "samples": samples}
    res.undecided = ["prefix semantics of chars().take(n) (trusted)", "multi-byte characters in inputs the generator never produces",
                     "algebraically equivalent rewrites of an arithmetic term (e.g. wrapping_sub(-1)) would be reported"]
    res.assumptions = ["inputs: any i32/i64/usize/f64; strings/byte strings of printable ASCII / any bytes up to 64 items (symbolic length)"]
    return res


def contract(short, name, r, val, lf):
    """list of violated clauses for one firing leaf"""
    P = []
    me = lf["me"]
    if short == "BitFlipMutator":
        width = {"mutate_int": 32, "mutate_long": 64}.get(name)
        if width is None:
            return ["bit-flip applies to %s" % name]
        if not (is_sym(r) and r.op == "xor"):
            return ["result %r is not value XOR (1 << pos)" % (r,)]
        a, b = r.args
        if b is val:
            a, b = b, a
        if a is not val:
            return ["XOR operand is not the input value"]
        if not (is_sym(b) and b.op == "shl" and b.args[0] == 1):
            return ["mask %r is not a single bit (1 << pos)" % (b,)]
        pos = strip(b.args[1])
        lo, hi = bounds(pos)
        if lo < 0 or hi > width - 1:
            P.append("bit position may be %d..%d, outside 0..%d" % (lo, hi, width - 1))
        return P
    if short == "BoundaryMutator":
        allowed = {"mutate_int": {0, -1, 1, 2 ** 31 - 1, -2 ** 31}, "mutate_long": {0, -1, 1, 2 ** 63 - 1, -2 ** 63}}
        if name in allowed:
            els = r.attrs.get("elems") if is_sym(r) else ([r] if isinstance(r, int) else None)
            if els is None:
                return ["result %r is not an element of a constant table" % (r,)]
            bad = [e for e in els if e not in allowed[name]]
            if bad:
                P.append("boundary table contains %r" % bad[0])
            return P
        if name == "mutate_float":
            els = r.attrs.get("elems") if is_sym(r) else ([r] if isinstance(r, float) else None)
            if els is None:
                return ["result %r is not an element of a constant table" % (r,)]
            import sys
            okset = [0.0, -1.0, 1.0, sys.float_info.max, -sys.float_info.max, float("inf"), float("-inf")]
            for e in els:
                if not (e != e or e in okset):
                    P.append("boundary table contains %r" % e)
            return P
        return ["boundary applies to %s" % name]
    if short == "OffByOneMutator":
        if name in ("mutate_int", "mutate_long"):
            if is_sym(r) and r.op in ("wrapping_add", "wrapping_sub") and r.args[0] is val and r.args[1] == 1:
                return P
            return ["result %r is not value.wrapping_add(1) / wrapping_sub(1)" % (r,)]
        if name == "mutate_memo_index":
            if is_sym(r) and r.op in ("sat_add", "sat_sub") and r.args[0] is val and r.args[1] == 1:
                return P
            return ["result %r is not index.saturating_add(1) / saturating_sub(1)" % (r,)]
        return ["off-by-one applies to %s" % name]
    if short == "MemoIndexMutator":
        if name != "mutate_memo_index":
            return ["memo-index applies to %s" % name]
        um = me.fields[0].value if isinstance(me.fields[0], G.LazyBool) else me.fields[0]
        if um:
            lo, hi = bounds(r)
            if lo < 0 or hi > 999:
                P.append("unsafe result may be %d..%d, must stay below 1000" % (lo, hi))
            return P
        if r is val:
            return P
        if is_sym(r) and r.op in ("sat_add", "sat_sub") and r.args[0] is val and r.args[1] == 1:
            return P
        return ["safe-mode result %r moves by more than one" % (r,)]
    if short == "CharacterMutator":
        if not isinstance(r, Bytes) or len(r.parts) != 1 or r.parts[0][0] != "pay":
            return ["result %r is not the input with one replaced item" % (r,)]
        pl = r.parts[0][1]
        tag = pl.origin.split(":")
        if name == "mutate_string":
            if not (tag[0] == "charvec_of" and int(tag[1]) in (val.id, val.src_id) and tag[2] == "1"):
                return ["result is not built from the input characters with exactly one replacement (%s)" % pl.origin]
            extra = set(pl.charset) - set(range(32, 127)) if False else set(pl.charset) - set(val.parts[0][1].charset)
            inj = set(pl.charset) - set(val.parts[0][1].charset)
            # replacement characters: compute from the recorded replaced value
        else:
            if not (tag[0] == "byteset_of" and int(tag[1]) in (val.id, val.src_id) and tag[2] == "1"):
                return ["result is not the input with exactly one replaced byte (%s)" % pl.origin]
        ilen = val.parts[0][1].len
        if not (pl.len is ilen or (is_sym(pl.len) and pl.len.op == "len" and pl.len.lo == ilen.lo and pl.len.hi == ilen.hi)):
            P.append("length changes")
        if name == "mutate_string":
            for cs in pl.meta.get("replaced", []):
                bad = sorted(c for c in cs if not 33 <= c <= 126)
                if bad:
                    P.append("replacement character may be 0x%02x, outside the printable range 33..126" % bad[0])
        return P
    if short == "StringLengthMutator":
        if not isinstance(r, Bytes):
            return ["result %r is not a string/bytes value" % (r,)]
        ip = val.parts
        if r is val or (len(r.parts) == len(ip) and all(x is y for x, y in zip(r.parts, ip))):
            return P  # unchanged (empty input): trivially a prefix
        if len(r.parts) == 1 and r.parts[0][0] == "pay" and r.parts[0][1].origin.startswith("prefix_of:"):
            if int(r.parts[0][1].origin.split(":")[1]) not in (val.id, val.src_id):
                P.append("prefix of something other than the input")
            lo, hi = bounds(r.parts[0][1].len)
            if hi > bounds(ip[0][1].len)[1]:
                P.append("truncated result may be longer than the input")
            return P
        if len(r.parts) == 2 * len(ip) and all(x is y for x, y in zip(r.parts, ip + ip)):
            return P  # doubled
        if len(r.parts) > len(ip) and all(x is y for x, y in zip(r.parts, ip)):
            extra = r.parts[len(ip):]
            cnt = 0
            for p in extra:
                l, h = E.part_len(p)
                if l != 1 or h != 1:
                    P.append("extension adds a variable-length piece")
                cnt += 1
                if name == "mutate_string":
                    cs = E.charset_of_parts([p])
                    if not cs <= set(range(97, 123)):
                        P.append("extension character outside a-z")
            if not 1 <= cnt <= 9:
                P.append("extension adds %d items, contract is 1-9" % cnt)
            return P
        return ["result %r is neither a prefix, the input plus 1-9 items, nor the input doubled" % (r,)]
    return P
