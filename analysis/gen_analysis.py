"""Shared analyses of the control code around the tables: cleanup_for_stop (collapse phase),
generate_internal (header / loop / STOP / FRAME back-patch), get_valid_opcodes, weighted_choice."""
from values import Agg, Box_, Bytes, Opaque, PathEnd, Ref, Sym, Unanalysable, bounds, err, is_none, is_some, is_sym, none, ok, some, unit
import absgen as G
import harness as H
import models as M
import trans
from interp import Interp, explore


class Step:
    """one emit_opcode call inside the collapse phase"""
    __slots__ = ("op", "pre", "base_open", "post", "events")


class CleanupLeaf:
    __slots__ = ("steps", "final", "final_open", "end", "panics", "version", "bound_hit", "notes", "atoms", "memo_events",
                 "pre", "extra_read", "extra_changed")


def cleanup_leaves(env, version=None):
    prog, ctx = env.prog, env.ctx
    key = prog.find("::cleanup_for_stop")
    eo_key = prog.find("::emit_opcode")
    mf = H.models_factory(prog, ctx, False)
    out = []

    def one(run):
        mods = mf()
        steps = []
        h = ctx.make_generator(depth_bound=env.depth_bound(), version=version, flags={"unsafe_mutations": False})

        def emit_opcode_stub(I, k, args):
            opv = args[1]
            if hasattr(opv, "resolve"):
                raise I.unanalysable("emit_opcode with a symbolic opcode")
            s = Step()
            s.op = opv.vname
            s.pre = list(reversed(h.stack.cur))  # top first, live objects
            s.base_open = h.stack.base_open
            n0 = len(run.events)
            r = I.call(k, args, nostub=True)
            s.post = list(h.stack.cur)
            s.events = run.events[n0:]
            steps.append(s)
            return r
        I = Interp(prog, run, mods, stubs={eo_key: emit_opcode_stub})
        one.last = (I, h, steps)
        args = [h.ref()]
        body = prog.bodies[key]
        for i in range(2, body["arg_count"] + 1):
            ty = str(body["locals"][i].get("ty", ""))
            if "GenerationSource" in ty:
                # the collapse phase was handed the entropy source: whatever it draws and emits is part of the analysis
                src = G.AbsSource(prog)
                h.src = src
                args.append(Ref(Box_(src, "source"), ()))
            else:
                raise Unanalysable("cleanup_for_stop takes a parameter of type %s: no abstract argument for it" % ty)
        I.call(key, args)
        return (I, h, steps)
    for run, res, pe in explore(one):
        I, h, steps = res if res is not None else one.last
        lf = CleanupLeaf()
        kvmap = {}
        lf.steps = []
        for s in steps:
            d = {"op": s.op,
                 "pre": [trans.cell_info(ctx, c, kvmap) for c in s.pre],
                 "base_open": s.base_open,
                 "post": [trans.cell_info(ctx, c, kvmap) for c in s.post],
                 "events": s.events}
            lf.steps.append(d)
        lf.final = [trans.cell_info(ctx, c, kvmap) for c in h.stack.cur]
        lf.final_open = h.stack.base_open
        lf.bound_hit = h.stack.bound_hit
        lf.pre = [trans.cell_info(ctx, c, kvmap) for c in h.stack.orig]
        lf.end = None if pe is None else (pe.kind, str(pe.info))
        lf.panics = list(run.panics)
        ver = h.version
        lf.version = (ver.chosen[2] if ver.chosen else None) if isinstance(ver, G.LazyEnum) else ver.vname
        lf.atoms = list(run.atom_log)
        lf.memo_events = [e for e in run.events if e[0].startswith("memo_")]
        lf.extra_read = ["state." + n for n in h.extra_scratch_read_at_entry(lf.atoms, h.out.writes)] + h.extra_gen_read_at_entry(lf.atoms, h.out.writes)
        lf.extra_changed = h.extra_state_changed() + h.extra_gen_changed()
        out.append(lf)
    return out


class MiniLeaf:
    """adapter so that refmachine.o1_check/o3_check can be applied to a collapse-phase step"""

    def __init__(self, op, pre, base_open, post, events):
        self.op, self.pre, self.base_open, self.post, self.events = op, pre, base_open, post, events
        self.bound_hit = False


# ----------------------------------------------------------------------------------------
class GenLeaf:
    pass


class ValidOps:
    """result of the stubbed get_valid_opcodes(): a list of opcodes known only to satisfy can_emit"""

    def __init__(self, n):
        self.n = n
        self.empty = None

    def is_empty(self, I):
        if self.empty is None:
            self.empty = not bool(I.run.choose(2, "valid opcodes non-empty"))
        return self.empty

    def length(self, I):
        return 0 if self.is_empty(I) else Sym("n_valid", (), "usize", 1, 68)


class Chosen:
    """the opcode weighted_choice picked from a ValidOps list: unknown, except for what the code asks about it"""

    def __init__(self, src):
        self.src = src
        self.asked = []

    def __repr__(self):
        return "Chosen(valid#%d)" % self.src.n

    def discriminant(self, I):
        return self

    def on_switch(self, I, targets, otherwise):
        # `match chosen { A | B => .., _ => .. }`: one fork per distinct successor block, not per opcode
        blocks = []
        for val, bb in targets:
            if bb not in blocks:
                blocks.append(bb)
        if otherwise not in blocks:
            blocks.append(otherwise)
        c = I.run.choose(len(blocks), "chosen opcode class")
        self.asked.append((tuple(v for v, bb in targets if bb == blocks[c]), blocks[c] == otherwise))
        return blocks[c]

    def cast_to(self, I, from_ty, to_ty):
        return self


class CoarseMemo(G.AbsMemo):
    """the memo after a stubbed emission: `is_empty()` forks two ways (empty / not empty) instead of over the size classes;
    the size class is only chosen if something asks for more than emptiness"""

    def is_empty(self, I):
        if self.keys_ is None and getattr(self, "_nonempty", None) is None and 0 in self.classes and len(self.classes) > 1:
            I.run.event("memo_inspected")
            if I.run.choose(2, "memo empty?") == 0:
                self.n0 = 0
                self.keys_ = set()
                return True
            self._nonempty = True
            self.classes = tuple(k for k in self.classes if k > 0)
            return False
        if self.keys_ is None and getattr(self, "_nonempty", None):
            return False
        return G.AbsMemo.is_empty(self, I)


def generate_internal_leaves(env, version, max_loop=3):
    """interpret generate_internal with the four callees that are verified separately stubbed out"""
    prog, ctx = env.prog, env.ctx
    key = prog.find("::generate_internal")
    k_valid = prog.find("::get_valid_opcodes")
    k_choice = prog.find("::weighted_choice")
    k_emit = prog.find("::emit_and_process")
    k_clean = prog.find("::cleanup_for_stop")
    mf = H.models_factory(prog, ctx, None)
    out = []

    def one(run):
        mods = mf()
        h = ctx.make_generator(depth_bound=3, version=version)
        counter = [0]

        def st_valid(I, k, a):
            counter[0] += 1
            v = ValidOps(counter[0])
            I.run.event("call", "get_valid_opcodes", v)
            return v

        def st_choice(I, k, a):
            v = a[1]
            if isinstance(v, Ref):          # the list may be passed by reference (&[OpcodeKind] / &Vec<OpcodeKind>)
                v = I.load(v)
            ret_opt = str(prog.bodies[k_choice].get("ret_ty", "")).startswith("std::option::Option<")
            if ret_opt and isinstance(v, ValidOps):
                # Option-returning form: None exactly for the empty list (checked on weighted_choice itself, R01.a)
                emp = v.is_empty(I)
                I.run.event("call", "weighted_choice", v, False)
                return none() if emp else some(Chosen(v))
            I.run.event("call", "weighted_choice", v, getattr(v, "empty", None))
            if isinstance(v, ValidOps):
                return Chosen(v)
            return some(Opaque("chosen_from_other")) if ret_opt else Opaque("chosen_from_other")

        def forget_state():
            """emit_and_process / cleanup_for_stop rewrite the simulated stack and memo: whatever generate_internal knew about
            them (e.g. `memo empty` after reset) no longer holds afterwards"""
            gnames = ctx.fields(ctx.gen_adt)
            st = h.g.fields[gnames.index("state")]
            if not isinstance(st, Agg):
                return
            snames = ctx.fields(ctx.state_adt)
            if "memo" in snames:
                st.fields[snames.index("memo")] = CoarseMemo(ctx)
            if "stack" in snames:
                sk = st.fields[snames.index("stack")]
                knames = ctx.fields(ctx.stack_adt)
                if isinstance(sk, Agg) and "inner" in knames:
                    sk.fields[knames.index("inner")] = G.AbsStack(ctx, 3)

        def ret_payload(k, what):
            """value a stubbed callee returns: () or, after a signature change, an unknown scalar of the declared type"""
            rty = str(prog.bodies[k].get("ret_ty", "()"))
            if rty.startswith("std::result::Result<"):
                rty = rty[len("std::result::Result<"):].split(",")[0].strip()
            if rty == "()":
                return unit()
            from values import INT_TYPES
            if rty in INT_TYPES:
                return Sym(what, (), rty, attrs={"name": what})
            raise Unanalysable("%s returns %s: no summary for a value of that type" % (k.split("::")[-1], rty))

        def st_emit(I, k, a):
            forget_state()
            I.run.event("extras_rewritten", tuple(h.extra_gen_rewritten()))
            I.run.event("call", "emit_and_process", a[1], h.out.cur_len, len(h.out.writes))
            # emit_and_process appends (C11 P3: exactly one opcode) and may fail
            n = Sym("emitted_len", (), "usize", 1, 1 << 20, attrs={"name": "emitted_len"})
            h.out.writes.append(("opaque_emission", a[1]))
            h.out._add_len(I, n)
            c = I.run.choose(2, "emit_and_process ok")
            if not str(prog.bodies[k].get("ret_ty", "")).startswith("std::result::Result<"):
                return ret_payload(k, "emit_and_process_result")
            return ok(ret_payload(k, "emit_and_process_result")) if c == 0 else err(Opaque("eyre::Report"))

        def st_clean(I, k, a):
            forget_state()
            I.run.event("extras_rewritten", tuple(h.extra_gen_rewritten()))
            I.run.event("call", "cleanup_for_stop", h.out.cur_len, len(h.out.writes))
            n = Sym("cleanup_len", (), "usize", 0, 1 << 20, attrs={"name": "cleanup_len"})
            h.out.writes.append(("opaque_cleanup",))
            h.out._add_len(I, n)
            return ret_payload(k, "cleanup_for_stop_result")
        I = Interp(prog, run, mods, stubs={k_valid: st_valid, k_choice: st_choice, k_emit: st_emit, k_clean: st_clean},
                   loop_limit=max_loop + 1)
        src = G.AbsSource(prog)
        h.src = src
        one.last = (I, h, None)
        r = I.call(key, [h.ref(), Ref(Box_(src, "source"), ())])
        return (I, h, r)
    for run, res, pe in explore(one):
        I, h, r = res if res is not None else one.last
        g = GenLeaf()
        g.end = None if pe is None else (pe.kind, str(pe.info))
        g.ret = r
        g.events = list(run.events)
        g.writes = list(h.out.writes)
        g.panics = list(run.panics)
        g.atoms = list(run.atom_log)
        g.h = h
        g.I = I
        g.version = version
        out.append(g)
    return out


# ----------------------------------------------------------------------------------------
def valid_opcodes_leaves(env, version):
    """get_valid_opcodes with can_emit stubbed by a fork: result must be exactly the table row filtered by can_emit"""
    prog, ctx = env.prog, env.ctx
    key = prog.find("::get_valid_opcodes")
    k_can = prog.find("::can_emit")
    mf = H.models_factory(prog, ctx, None)
    out = []

    def one(run):
        asked = []

        def st_can(I, k, a):
            v = a[1]
            c = bool(I.run.choose(2, "can_emit(%s)" % v.vname))
            asked.append((v.vname, c))
            return c
        I = Interp(prog, run, mf(), stubs={k_can: st_can})
        h = ctx.make_generator(depth_bound=2, version=version)
        r = I.call(key, [h.ref()])
        return (asked, r)
    n = 0
    for run, res, pe in explore(one, max_runs=400):
        n += 1
        out.append((res, pe))
        if n >= 300:
            break
    return out


def valid_single(env, version, opname, max_runs=200):
    """get_valid_opcodes where the (stubbed) guard holds for `opname` only: [(consulted?, offered?)] per leaf"""
    prog, ctx = env.prog, env.ctx
    key = prog.find("::get_valid_opcodes")
    k_can = prog.find("::can_emit")
    mf = H.models_factory(prog, ctx, None)
    out = []

    def one(run):
        asked = []

        def st_can(I, k, a):
            asked.append(a[1].vname)
            return a[1].vname == opname
        I = Interp(prog, run, mf(), stubs={k_can: st_can})
        h = ctx.make_generator(depth_bound=2, version=version)
        r = I.call(key, [h.ref()])
        got = [v.vname for v in M.as_elems(None, r)] if hasattr(r, "elems") else []
        return (opname in asked, opname in got)
    for run, res, pe in explore(one, max_runs=max_runs):
        out.append((res, pe))
    return out


def offered_somewhere(env, version, opname, max_runs=4000):
    """Is `opname` in the list get_valid_opcodes returns for SOME abstract state?  The real guard of `opname` is interpreted
    (all other guards answer false: they cannot add `opname` to the list), so a pre-filter in get_valid_opcodes that
    contradicts the guard shows as `never offered`.  Returns (offered, leaves, guard_true_leaves)."""
    prog, ctx = env.prog, env.ctx
    key = prog.find("::get_valid_opcodes")
    k_can = prog.find("::can_emit")
    mf = H.models_factory(prog, ctx, None)
    nleaves = [0, 0]

    def one(run):
        held = [False]

        def st_can(I, k, a):
            v = a[1]
            if getattr(v, "vname", None) != opname:
                return False
            r = I.truth(I.call(k, a, nostub=True))
            held[0] = held[0] or r
            return r
        I = Interp(prog, run, mf(), stubs={k_can: st_can})
        h = ctx.make_generator(depth_bound=4, version=version, flags={"allow_ext_opcodes": True, "allow_buffer_opcodes": True})
        r = I.call(key, [h.ref()])
        got = [v.vname for v in M.as_elems(None, r)] if hasattr(r, "elems") else []
        return (opname in got, held[0])
    for run, res, pe in explore(one, max_runs=max_runs):
        nleaves[0] += 1
        if pe is not None or res is None:
            continue
        if res[1]:
            nleaves[1] += 1
        if res[0]:
            return True, nleaves[0], nleaves[1]
    return False, nleaves[0], nleaves[1]


def weighted_choice_leaves(env, names):
    prog, ctx = env.prog, env.ctx
    key = prog.find("::weighted_choice")
    mf = H.models_factory(prog, ctx, None)
    out = []

    def one(run):
        I = Interp(prog, run, mf())
        h = ctx.make_generator(depth_bound=2)
        vec = M.VecObj([ctx.opcode_value(n) for n in names], "opcodes::OpcodeKind")
        src = G.AbsSource(prog)
        by_ref = str(prog.bodies[key]["locals"][2].get("ty", "")).startswith("&")
        r = I.call(key, [h.ref(), Ref(Box_(vec, "opcodes"), ()) if by_ref else vec, Ref(Box_(src, "source"), ())])
        if str(prog.bodies[key].get("ret_ty", "")).startswith("std::option::Option<"):
            # Option-returning form: None is allowed exactly for the empty list; callers see the payload
            if is_none(r):
                r = Opaque("none-for-empty") if not names else Opaque("none-for-nonempty")
            elif is_some(r):
                r = r.fields[0]
        return (I, r)
    for run, res, pe in explore(one, max_runs=400):
        out.append((res, pe, list(run.panics)))
    return out


def out_cleared_before_use(g):
    """True when the leaf clears Generator.output before anything reads, extends, patches or copies it (entry state unknown)."""
    ic = iu = None
    for i, e in enumerate(g.events):
        if ic is None and e[0] == "out_clear":
            ic = i
        if iu is None and (e[0] in ("out", "out_len_read", "out_truncate", "out_patch", "out_clone") or e[0] == "call"):
            iu = i
    return ic is not None and (iu is None or ic < iu)
