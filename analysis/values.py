"""Abstract value domain of the MIR interpreter (PVM-AI).

Nothing here executes repository code: values are concrete ints/bools/floats where the MIR
gives constants, and symbolic terms (`Sym`) with intervals / charsets everywhere else.
"""
import itertools
import struct

INT_TYPES = {
    "u8": (8, False), "u16": (16, False), "u32": (32, False), "u64": (64, False), "u128": (128, False),
    "usize": (64, False),
    "i8": (8, True), "i16": (16, True), "i32": (32, True), "i64": (64, True), "i128": (128, True),
    "isize": (64, True),
    "char": (32, False), "bool": (1, False),
}


def ty_range(ty):
    bits, signed = INT_TYPES[ty]
    if signed:
        return -(1 << (bits - 1)), (1 << (bits - 1)) - 1
    return 0, (1 << bits) - 1


def wrap(v, ty):
    bits, signed = INT_TYPES[ty]
    v &= (1 << bits) - 1
    if signed and v >= (1 << (bits - 1)):
        v -= 1 << bits
    return v


class Unanalysable(Exception):
    """The interpreter met a construct it has no sound model for.  Fails closed."""

    def __init__(self, what, where=None):
        Exception.__init__(self, what)
        self.what = what
        self.where = where

    def __str__(self):
        return "%s%s" % (self.what, (" at " + str(self.where)) if self.where else "")


class PathEnd(Exception):
    """The current path ends without returning (panic, abort, bound)."""

    def __init__(self, kind, info=None):
        Exception.__init__(self, kind)
        self.kind = kind
        self.info = info


_ids = itertools.count(1)


class Sym:
    """A symbolic scalar: op-tree + type + interval (ints) / value classes (floats)."""
    __slots__ = ("op", "args", "ty", "lo", "hi", "id", "attrs")

    def __init__(self, op, args=(), ty="usize", lo=None, hi=None, attrs=None):
        self.op = op
        self.args = tuple(args)
        self.ty = ty
        self.id = next(_ids)
        if ty in INT_TYPES:
            tlo, thi = ty_range(ty)
            self.lo = tlo if lo is None else max(lo, tlo)
            self.hi = thi if hi is None else min(hi, thi)
        else:
            self.lo, self.hi = lo, hi
        self.attrs = attrs or {}

    def key(self):
        """Structural key (used to memoise path atoms)."""
        if not self.args:
            return (self.op, self.id)
        return (self.op, self.ty) + tuple(a.key() if isinstance(a, Sym) else ("c", repr(a)) for a in self.args)

    def show(self, depth=0):
        if depth > 6:
            return "..."
        if not self.args:
            nm = self.attrs.get("name", self.op)
            return "%s#%d:%s" % (nm, self.id, self.ty)
        return "%s(%s)" % (self.op, ", ".join(a.show(depth + 1) if isinstance(a, Sym) else repr(a) for a in self.args))

    def __repr__(self):
        r = self.show()
        if self.ty in INT_TYPES and (self.lo, self.hi) != ty_range(self.ty):
            r += "∈[%s,%s]" % (self.lo, self.hi)
        return r

    def leaves(self):
        if not self.args:
            yield self
        for a in self.args:
            if isinstance(a, Sym):
                for x in a.leaves():
                    yield x


def is_sym(v):
    return isinstance(v, Sym)


def bounds(v, ty=None):
    if isinstance(v, Sym):
        return v.lo, v.hi
    if isinstance(v, bool):
        return int(v), int(v)
    return v, v


class Agg:
    """struct / enum value / tuple / array / closure environment"""
    __slots__ = ("adt", "variant", "fields", "discr", "vname")

    def __init__(self, adt, variant, fields, discr=None, vname=None):
        self.adt = adt
        self.variant = variant
        self.fields = fields
        self.discr = discr if discr is not None else (variant or 0)
        self.vname = vname

    def __repr__(self):
        if self.adt == "tuple":
            return "(%s)" % ", ".join(map(repr, self.fields))
        if self.adt == "array":
            return "[%s]" % ", ".join(map(repr, self.fields[:8])) + ("..." if len(self.fields) > 8 else "")
        n = self.adt.split("::")[-1]
        if self.vname:
            n += "::" + self.vname
        if self.fields:
            return "%s(%s)" % (n, ", ".join(map(repr, self.fields[:6])))
        return n


def unit():
    return Agg("tuple", None, [])


OPTION = "std::option::Option"
RESULT = "std::result::Result"


def some(v):
    return Agg(OPTION, 1, [v], 1, "Some")


def none():
    return Agg(OPTION, 0, [], 0, "None")


def ok(v):
    return Agg(RESULT, 0, [v], 0, "Ok")


def err(v):
    return Agg(RESULT, 1, [v], 1, "Err")


def is_some(v):
    return isinstance(v, Agg) and v.adt == OPTION and v.variant == 1


def is_none(v):
    return isinstance(v, Agg) and v.adt == OPTION and v.variant == 0


class Box_:
    """A mutable memory cell: a MIR local or a heap slot."""
    __slots__ = ("v", "name")

    def __init__(self, v=None, name=None):
        self.v = v
        self.name = name


class Uninit:
    def __repr__(self):
        return "<uninit>"


UNINIT = Uninit()


class Ref:
    """Pointer to a place = (cell, projection path)."""
    __slots__ = ("box", "path", "mut")

    def __init__(self, box, path=(), mut=False):
        self.box = box
        self.path = tuple(path)
        self.mut = mut

    def __repr__(self):
        return "&%s%s" % (self.box.name or "cell", "".join(".%s" % (p,) for p in self.path))


class Opaque:
    """A value whose content is irrelevant to every rule (error reports, debug structs...)."""
    __slots__ = ("what", "attrs")

    def __init__(self, what, **attrs):
        self.what = what
        self.attrs = attrs

    def __repr__(self):
        return "<%s>" % self.what


class FnItem:
    """zero-sized function item / resolved callee used as a value (passed to adaptors)."""
    __slots__ = ("callee",)

    def __init__(self, callee):
        self.callee = callee

    def __repr__(self):
        return "fn:%s" % self.callee.get("path")


def f64_from_bits(bits):
    return struct.unpack("<d", struct.pack("<Q", bits))[0]


def f32_from_bits(bits):
    return struct.unpack("<f", struct.pack("<I", bits))[0]


# ----------------------------------------------------------------------------------------
# byte strings / strings as sequences of parts


class Payload:
    """An opaque variable-length run of bytes/chars with a charset and a length term."""
    __slots__ = ("id", "kind", "charset", "len", "origin", "escapes", "meta")

    def __init__(self, kind, charset, length, origin="", escapes=(), meta=None):
        self.meta = meta or {}
        self.id = next(_ids)
        self.kind = kind  # 'str' | 'bytes'
        self.charset = frozenset(charset)  # byte / code point values that may occur
        self.len = length  # int or Sym
        self.origin = origin
        self.escapes = tuple(escapes)  # replace chain applied to every item, in order

    def __repr__(self):
        lo, hi = bounds(self.len)
        cs = "%d chars" % len(self.charset)
        e = (" esc%r" % (self.escapes,)) if self.escapes else ""
        return "Payload#%d(%s,len∈[%s,%s],%s%s)" % (self.id, self.kind, lo, hi, cs, e)


class Bytes:
    """Byte string / string value: list of parts.

    part kinds:
      ('lit', bytes)                      literal bytes
      ('u8', v)                           one byte, v int or Sym
      ('int', v, ty, 'le'|'be', lo, hi)   bytes lo..hi of the encoding of integer/float v
      ('pay', Payload)                    variable-length payload
      ('disp', v, ty)                     Display rendering of a number (decimal text)
      ('lenof', ...)  never here: lengths are 'int' parts whose v is a Sym(op='len')
    """
    __slots__ = ("parts", "is_str", "id", "nset", "src_id")

    def __init__(self, parts=(), is_str=False):
        self.parts = list(parts)
        self.is_str = is_str
        self.id = next(_ids)
        self.nset = 0
        self.src_id = self.id

    def copy(self):
        c = Bytes(list(self.parts), self.is_str)
        c.src_id = self.src_id
        return c

    def __repr__(self):
        return "%s%r" % ("Str" if self.is_str else "Bytes", self.parts)

    def fixed_len(self):
        """(min_len, max_len) ints or None for unbounded"""
        lo = hi = 0
        for p in self.parts:
            l, h = part_len(p)
            lo += l
            hi = None if (hi is None or h is None) else hi + h
        return lo, hi


def part_len(p):
    k = p[0]
    if k == "lit":
        return len(p[1]), len(p[1])
    if k == "u8":
        return 1, 1
    if k == "int":
        return p[5] - p[4], p[5] - p[4]
    if k == "pay":
        lo, hi = bounds(p[1].len)
        mult_lo, mult_hi = 1, 1
        if p[1].escapes:
            mult_hi = max(len(apply_escapes(bytes([c]) if c < 256 else chr(c).encode(), p[1].escapes)) for c in p[1].charset) if p[1].charset else 1
            mult_lo = min(len(apply_escapes(bytes([c]) if c < 256 else chr(c).encode(), p[1].escapes)) for c in p[1].charset) if p[1].charset else 0
        return lo * mult_lo, (None if hi is None else hi * mult_hi)
    if k == "disp":
        ty = p[2]
        if ty in INT_TYPES:
            lo, hi = bounds(p[1])
            m = max(len(str(lo)), len(str(hi)))
            return 1, m
        return 1, 400  # f64 Display: finite decimal expansion, at most ~330 chars; 'NaN', 'inf'
    raise ValueError(p)


def apply_escapes(b, escapes):
    """b: the bytes of one item (byte / character).  An escape is either a (pattern, replacement) pair of a `replace` call or
    ('tbl', {byte: bytes}): the per-byte rewriting table of a summarised per-byte / per-char loop (models.PayIt)."""
    for e in escapes:
        if e[0] == "tbl":
            b = b"".join(e[1][x] for x in b)
        else:
            b = b.replace(e[0], e[1])
    return b
