"""Decision layer: run the rules of one property, apply known findings, write evidence."""
import json
import os
import re
import sys
import time
import traceback

HERE = os.path.dirname(os.path.abspath(__file__))
VERIF = os.path.dirname(HERE)
sys.path.insert(0, HERE)

import facts  # noqa: E402
from interp import Program  # noqa: E402
from values import Unanalysable, PathEnd as PathEndLike  # noqa: E402
import absgen as G  # noqa: E402
import refmachine as R  # noqa: E402


class Finding:
    def __init__(self, rule, key, msg, where=None, detail=None):
        self.rule = rule
        self.key = key  # stable: no line numbers
        self.msg = msg
        self.where = where
        self.detail = detail or {}

    def to_json(self):
        return {"rule": self.rule, "key": self.key, "message": self.msg, "where": self.where, "detail": self.detail}


class Result:
    def __init__(self, pid, level):
        self.pid = pid
        self.level = level
        self.findings = []
        self.coverage = {}
        self.assumptions = []
        self.undecided = []
        self.instances = {}  # rule -> count (vacuity guards)

    def add(self, rule, key, msg, where=None, detail=None):
        key = re.sub(r"#\d+", "", key)
        key = re.sub(r" object at 0x[0-9a-fA-F]+", "", key)      # keys are stable across runs: no object addresses
        key = re.sub(r"0x[0-9a-fA-F]{8,}", "0x", key)
        full = "%s/%s/%s" % (self.pid, rule, key)
        if any(f.key == full for f in self.findings):
            return
        self.findings.append(Finding(rule, full, msg, where, detail))

    def count(self, rule, n=1):
        self.instances[rule] = self.instances.get(rule, 0) + n

    def floor(self, rule, minimum, what):
        """vacuity guard: a rule that saw fewer instances than counted by hand fails closed"""
        n = self.instances.get(rule, 0)
        if n < minimum:
            self.add(rule, "floor", "rule %s saw %d %s, expected at least %d (anchor missing or renamed: fails closed)" % (rule, n, what, minimum))


class Env:
    def __init__(self, tier):
        self.tier = tier
        self.t0 = time.time()
        self._units = {}
        self._cache = {}
        self.repo = facts.REPO

    def unit(self, name):
        if name not in self._units:
            self._units[name] = Program(facts.load_unit(name))
        return self._units[name]

    @property
    def prog(self):
        return self.unit("lib")

    @property
    def ctx(self):
        if "ctx" not in self._cache:
            self._cache["ctx"] = G.Ctx(self.prog)
        return self._cache["ctx"]

    @property
    def spec(self):
        if "spec" not in self._cache:
            self._cache["spec"] = R.Spec()
        return self._cache["spec"]

    def memo(self, key, fn):
        if key not in self._cache:
            self._cache[key] = fn()
        return self._cache[key]

    def depth_bound(self):
        return 7 if self.tier == "quick" else 9

    def loc(self, key, prog=None):
        prog = prog or self.prog
        b = prog.bodies.get(key)
        if not b:
            return None
        return "%s:%s" % (b["span"]["file"], b["span"]["line"])


def load_known():
    path = os.path.join(VERIF, "known_findings.txt")
    known = {}
    fixed = []
    if os.path.exists(path):
        for line in open(path):
            line = line.strip()
            if not line or line.startswith("#"):
                continue
            m = re.match(r"known:\s+property=(\S+)\s+key=(\S+)\s*::\s*(.*)", line)
            if m:
                known[(m.group(1), m.group(2))] = m.group(3)
                continue
            m = re.match(r"fixed:\s+property=(\S+)\s+(\S+)\s+(.*)", line)
            if m:
                fixed.append((m.group(1), m.group(2), m.group(3)))
    return known, fixed


def finish(res, env, replay_key=None):
    """print findings, write evidence + replay files, return exit code"""
    known, _fixed = load_known()
    root = os.environ.get("PFZ_OUT_ROOT", VERIF)
    outdir = os.path.join(root, "out", res.pid)
    os.makedirs(outdir, exist_ok=True)
    for fn in os.listdir(outdir):
        if fn.endswith(".json"):
            os.unlink(os.path.join(outdir, fn))
    nviol = 0
    nknown = 0
    for i, f in enumerate(res.findings):
        kk = (res.pid, f.key)
        if kk in known:
            nknown += 1
            print("KNOWN-FINDING: property=%s %s :: %s" % (res.pid, f.key, known[kk]))
            continue
        nviol += 1
        rp = os.path.join(outdir, "%d.json" % nviol)
        with open(rp, "w") as fh:
            json.dump({"property": res.pid, "finding": f.to_json()}, fh, indent=1, default=str)
        print("VIOLATION property=%s replay=%s" % (res.pid, rp))
        print("  rule   : %s" % f.rule)
        print("  key    : %s" % f.key)
        if f.where:
            print("  where  : %s" % f.where)
        print("  what   : %s" % f.msg)
    wall = time.time() - env.t0
    cov = dict(res.coverage)
    cov.setdefault("rule_instances", res.instances)
    if res.undecided:
        cov["undecided_clauses"] = res.undecided
    cov["known_findings_reported"] = nknown
    ev = {
        "property_id": res.pid,
        "tier": env.tier,
        "seed": int(os.environ.get("VERIF_SEED", "0") or 0),
        "level": res.level,
        "coverage": cov,
        "assumptions": res.assumptions,
        "wall_s": round(wall, 2),
        "violations": nviol,
    }
    os.makedirs(os.path.join(root, "evidence"), exist_ok=True)
    with open(os.path.join(root, "evidence", res.pid + ".json"), "w") as fh:
        json.dump(ev, fh, indent=1, default=str)
    if nviol == 0:
        print("OK property=%s tier=%s findings=0 known=%d wall=%.1fs" % (res.pid, env.tier, nknown, wall))
    return 1 if nviol else 0


def run_property(pid, tier, rule_fn):
    env = Env(tier)
    try:
        res = rule_fn(env)
    except Unanalysable as e:
        level = getattr(rule_fn, "level", "other")
        res = Result(pid, level)
        res.coverage = {"explanation": "analysis aborted: fails closed", "evaluations": 1, "distinct_nontrivial": 2}
        res.add("engine", "unanalysable/" + re.sub(r"[^A-Za-z0-9_:<>.-]+", "_", e.what.split("; ")[0])[:120],
                "unanalysable construct (fails closed): %s" % e)
    except (PathEndLike, RecursionError, KeyError, IndexError, TypeError, AttributeError, ValueError, AssertionError) as e:
        # an internal error of the analysis must never look like a pass: fail closed, with the reason
        level = getattr(rule_fn, "level", "other")
        res = Result(pid, level)
        res.coverage = {"explanation": "analysis aborted by an internal error: fails closed", "evaluations": 1, "distinct_nontrivial": 2}
        tb = traceback.format_exc().strip().splitlines()
        res.add("engine", "internal-error/%s" % type(e).__name__, "internal error of the checker (fails closed): %s | %s" % (tb[-1][:200], " <- ".join(l.strip() for l in tb[-7:-1:2])[:400]))
    return finish(res, env)
