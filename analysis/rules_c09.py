"""C09: generation is total - reviewed inventory of panic/Err sites with automatic discharge by
exhaustive abstract interpretation (DESIGN.md C09)."""
import re

import callgraph as CG
import cfg
import interp
import harness as H
import absgen as G
import gen_analysis as GA
import rules_pvm as PV
import rules_gen
import rules_mut
import rules_c18
import mutsum
from framework import Result
from interp import Interp, explore
from values import Agg, Box_, Bytes, Opaque, Payload, Ref, Sym, Unanalysable, ok, unit

PANICKY = re.compile(r"(::unwrap$|::expect$|::unwrap_err$|panic_fmt$|panicking::|::index$|::index_mut$|::borrow_mut$|RefCell::<T>::borrow$|"
                     r"::random_range$|::int_in_range$|::copy_from_slice$|::remove$|::swap_remove$|::split_at$|unreachable|::clamp$|::from_utf8_unchecked$|"
                     r"::insert$|::drain$|::truncate$|slice::index::|::choose$|::gen_range$)")
NEVER_PANICS = re.compile(r"(HashMap::<K, V, S, A>::insert$|HashSet::<T, S, A>::insert$|Vec::<T, A>::truncate$|generator::source::EntropySource::gen_range$)")


def site_list(prog, key):
    """[(bb, kind, text)] panic-capable sites of a body"""
    out = []
    body = prog.bodies[key]
    for i, b in enumerate(body["blocks"]):
        if b["cleanup"]:
            continue
        t = b["t"]
        if t["k"] == "assert":
            out.append((i, "assert", t["msg"][:60]))
        elif t["k"] == "call" and "path" in t["f"]:
            p = cfg.callee_path(t) or ""
            if PANICKY.search(p) and not NEVER_PANICS.search(p):
                out.append((i, "call", p))
            if t["t"] is None and not PANICKY.search(p):
                out.append((i, "diverges", p))
        elif t["k"] == "unreachable":
            pass
    return out


def rule_C09(env):
    res = Result("C09", "other")
    prog, ctx = env.prog, env.ctx
    cg = CG.CallGraph(prog)
    pub = ["generator::Generator::generate", "generator::Generator::generate_from_arbitrary", "generator::Generator::reset",
           "generator::Generator::new", "<generator::Generator as std::default::Default>::default"]
    builders = sorted(k for k in prog.bodies if re.match(r"generator::Generator::with_\w+$", k))
    roots = []
    for p in pub:
        try:
            roots.append(prog.find(p))
        except Unanalysable as e:
            res.add("anchor", p.split("::")[-1], str(e))
    roots += builders
    reach = cg.reachable(roots)
    # ---- run every analysis in this process so that block coverage is complete ----
    leaves_panics = []   # (where, what)
    nleaves = 0

    def note_end(where, end, panics, kinds=("panic", "bound", "diverge")):
        for p in panics:
            leaves_panics.append((where, "panic site %r" % (p,)))
        if end is not None and end[0] in kinds:
            leaves_panics.append((where, "%s: %s" % (end[0], end[1])))
    for unsafe in (False, True):
        tr = PV.get_trans(env, unsafe)
        for op, lvs in tr.items():
            if isinstance(lvs, Exception):
                res.add("engine", "unanalysable/%s" % op, "arm %s cannot be analysed: %s" % (op, lvs), PV.op_loc(env, "::emit_and_process"))
                continue
            for lf in lvs:
                nleaves += 1
                if not PV.leaf_applies(lf, env) and lf.can_emit:
                    continue
                note_end("emit_and_process/%s" % op if lf.can_emit else "can_emit/%s" % op, lf.end, lf.panics)
                if lf.can_emit and lf.end is None and getattr(lf.ret, "vname", None) == "Err":
                    leaves_panics.append(("emit_and_process/%s" % op, "returns Err"))
    for lf in env.memo("cleanup_leaves", lambda: GA.cleanup_leaves(env)):
        nleaves += 1
        note_end("cleanup_for_stop", lf.end, lf.panics)
    for ver in range(6):
        for g in rules_gen.gen_leaves(env, ver):
            nleaves += 1
            note_end("generate_internal", g.end, g.panics, kinds=("panic", "diverge"))
            if g.end is None and getattr(g.ret, "vname", None) == "Err":
                # an Err leaf is only acceptable when it merely propagates emit_and_process's (stubbed) Err
                if not any(e[0] == "err_propagated" for e in g.events) or any(e[0] == "err_constructed" for e in g.events):
                    leaves_panics.append(("generate_internal", "constructs and returns Err"))
            if g.end is None and g.ret is not None and getattr(g.ret, "vname", None) == "Ok":
                r = g.ret.fields[0]
                # non-empty result: at least the STOP byte was appended after clearing
                if not any(w[0] == "out" for w in g.writes):
                    leaves_panics.append(("generate_internal", "may return an empty byte string"))
    import rules_c01
    tmp = Result("C01", "other")
    rules_c01.generate_structure_checks(env, tmp)   # enters get_valid_opcodes / weighted_choice
    for f in tmp.findings:
        if "panic" in f.key or "ends" in f.key:
            leaves_panics.append((f.key.split("/")[2], f.msg))
    # mutators and entropy adapters
    table = env.memo("muttable", lambda: mutsum.MutatorTable(prog))
    for name in rules_mut.VALUE_METHODS + ("post_process",):
        for self_ty, key in table.method_keys(name):
            lvs = rules_mut.post_process_leaves(env, self_ty, key) if name == "post_process" else rules_mut.impl_leaves(env, self_ty, key, name)
            for lf in lvs:
                nleaves += 1
                note_end("%s::%s" % (self_ty.split("::")[-1], name), None if lf["end"] is None else (lf["end"].kind, str(lf["end"].info)), lf["run"].panics)
    impls = [i for i in prog.impls if i["trait"] and i["trait"].endswith("source::EntropySource")]
    for it in (impls[0]["items"] if impls else []):
        if it["key"] not in prog.bodies:
            continue
        nargs = prog.bodies[it["key"]]["arg_count"] - 1
        lvs = rules_c18.method_leaves(env, it["key"], lambda n=nargs: [Sym("a%d" % i, (), "usize", 0, 1 << 20) for i in range(n)])
        for lf in lvs:
            nleaves += 1
            note_end("EntropySource::%s" % it["name"], None if lf["end"] is None else (lf["end"].kind, str(lf["end"].info)), lf["run"].panics)
    # public entry points and builders (generate_internal stubbed: analysed above)
    mf = H.models_factory(prog, ctx, None)
    k_gi = prog.find("::generate_internal")
    for k in roots:
        body = prog.bodies[k]
        def one(run, k=k, body=body):
            I = Interp(prog, run, mf(), stubs={k_gi: lambda I, kk, a: ok(Opaque("bytes"))})
            h = ctx.make_generator(depth_bound=2)
            args = []
            for i in range(1, body["arg_count"] + 1):
                ty = body["locals"][i]["ty"]
                if "Generator" in ty and ty.startswith("&"):
                    args.append(h.ref())
                elif ty.endswith("generator::Generator"):
                    args.append(h.g)
                elif ty in ("usize", "u64"):
                    args.append(Sym("arg%d" % i, (), ty))
                elif ty == "f64":
                    s = Sym("arg%d" % i, (), "f64")
                    s.attrs["f64class"] = "any"
                    args.append(s)
                elif ty == "bool":
                    args.append(G.LazyBool("arg%d" % i))
                elif ty.startswith("&[u8]"):
                    args.append(Ref(Box_(Bytes([("pay", Payload("bytes", range(256), Sym("data_len", (), "usize", 0, 1 << 20), origin="entry_data"))], False), "data"), ()))
                elif "protocol::Version" in ty:
                    args.append(ctx.version_value(3))
                else:
                    args.append(Opaque("arg:" + ty))
            return I.call(k, args)
        try:
            for run, r, pe in explore(one, max_runs=500):
                nleaves += 1
                note_end(k.split("::")[-1], None if pe is None else (pe.kind, str(pe.info)), run.panics)
        except Unanalysable as e:
            res.add("engine", "entry/%s" % k.split("::")[-1], "entry point %s cannot be analysed: %s" % (k, e), env.loc(k))
    seen = set()
    for where, what in leaves_panics:
        key = "%s/%s" % (where, re.sub(r"[^A-Za-z0-9_]+", "_", what)[:70])
        if key in seen:
            continue
        seen.add(key)
        res.add("undischarged", key, "%s: %s" % (where, what))
    # ---- inventory ----
    entered = {k for (k, bb) in interp.COVER}
    nsites = ncov = nunreach = 0
    samples = []
    for k in sorted(reach):
        sites = site_list(prog, k)
        if not sites:
            continue
        if k not in entered:
            res.add("inventory", "not-analysed/%s" % re.sub(r"[^A-Za-z0-9_:]+", "_", k)[-70:],
                    "%s is reachable from the public API and contains %d panic-capable site(s) (%s) but no analysis entered it" % (k, len(sites), sites[0][2]), env.loc(k))
            continue
        for bb, kind, text in sites:
            nsites += 1
            res.count("sites")
            if (k, bb) in interp.COVER:
                ncov += 1
                if len(samples) < 5:
                    samples.append({"body": k.split("::")[-1], "site": text[:60], "discharge": "executed by the exhaustive abstract interpretation; no path panics here"})
            else:
                nunreach += 1
                if len(samples) < 8:
                    samples.append({"body": k.split("::")[-1], "site": text[:60], "discharge": "block unreachable from every abstract state satisfying the invariant"})
    res.floor("sites", 60, "panic-capable sites in reachable bodies")
    res.coverage = {"explanation": "every Assert terminator and call to a panicking function in bodies reachable from the public API is enumerated from MIR; a site is discharged when the "
                    "exhaustive abstract interpretation (all opcode arms from all invariant states, safe and unsafe, the collapse phase, generate_internal, every mutator "
                    "method, every entropy adapter, entry points and builders with symbolic arguments) either executes its block on some path without any path panicking, "
                    "or never reaches it; panicking/Err/unbounded-loop leaves are reported with their site.",
                    "evaluations": nleaves, "distinct_nontrivial": max(2, nsites), "sites": nsites, "sites_executed_without_panic": ncov,
                    "sites_unreachable_under_invariant": nunreach, "reachable_bodies": len(reach), "samples": samples}
    res.undecided = ["stack exhaustion through recursive Drop/Clone of deeply nested simulated objects", "allocation failure", "panics inside dependencies on valid arguments"]
    res.assumptions = ["RefCell borrow conflicts are checked with a may-alias typestate (pre-state cells may alias each other)"]
    return res
