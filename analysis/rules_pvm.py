"""Rules of the inductive group: C01 (stack discipline), C02 (memo), C03 (operand kinds),
C17 (simulation fidelity).  See DESIGN.md section 4."""
import re
import time

from values import Agg, Box_, INT_TYPES, PathEnd, Ref, Sym, Unanalysable, bounds, is_sym
import absgen as G
import harness as H
import models as M
import trans
import refmachine as R
import emission as E
from framework import Result
from interp import Interp, explore


def get_trans(env, unsafe=False):
    """transitions of all opcode arms; shared between the checks of one tree through an on-disk
    cache keyed by the tree digest (the cache only stores results of this same analysis)"""
    def build():
        import os, pickle, facts, sys
        d = os.path.join(facts.facts_dir(), "derived")
        import hashlib, glob
        h = hashlib.sha256()
        for src in sorted(glob.glob(os.path.join(os.path.dirname(os.path.abspath(__file__)), "*.py"))) + \
                sorted(glob.glob(os.path.join(os.path.dirname(os.path.dirname(os.path.abspath(__file__))), "reference", "*.json"))):
            h.update(open(src, "rb").read())
        fn = os.path.join(d, "trans-%s-D%d-%s.pkl" % ("unsafe" if unsafe else "safe", env.depth_bound(), h.hexdigest()[:12]))
        for old in glob.glob(os.path.join(d, "trans-*.pkl")):
            if not old.endswith(h.hexdigest()[:12] + ".pkl"):
                try:
                    os.unlink(old)
                except OSError:
                    pass
        if os.path.exists(fn) and not os.environ.get("PFZ_NO_CACHE"):
            try:
                with open(fn, "rb") as fh:
                    res, cover = pickle.load(fh)
                import interp
                interp.COVER.update(cover)
                return res
            except Exception:
                pass
        res, dt = trans.all_transitions(env.prog, env.ctx, depth_bound=env.depth_bound(), unsafe_mode=(None if unsafe else False),
                                        max_iter=1)
        try:
            os.makedirs(d, exist_ok=True)
            sys.setrecursionlimit(100000)
            tmp = fn + ".tmp%d" % os.getpid()
            import interp
            with open(tmp, "wb") as fh:
                pickle.dump((res, sorted(interp.COVER)), fh, protocol=4)
            os.replace(tmp, fn)
        except Exception as e:
            sys.stderr.write("note: transition cache not written: %r\n" % (e,))
        return res
    return env.memo(("trans", unsafe), build)


def op_loc(env, fn_suffix):
    try:
        return env.loc(env.prog.find(fn_suffix))
    except Unanalysable:
        return None


def protocols_of(env, op):
    """protocols whose table row (T2, from the source) lists `op`"""
    t2 = table_T2(env)
    return [p for p, ops in sorted(t2.items()) if op in ops]


def table_T2(env):
    def build():
        import tables
        return tables.extract_T2(env.prog, env.ctx)
    return env.memo("T2", build)


def applicable_protocols(leaf, env):
    """protocols P with op in T2[P], compatible with the leaf's version and with the loop invariant
    `proto_emitted == (P >= 2)` (established by emit_proto before the loop: rule R05.c; no emission
    leaf writes the flag: checked in C05)"""
    ps = protocols_of(env, leaf.op)
    if leaf.version is not None:
        ps = [p for p in ps if p == int(leaf.version[1:])]
    pe = leaf.proto_emitted_pre
    if pe is True:
        ps = [p for p in ps if p >= 2]
    elif pe is False:
        ps = [p for p in ps if p < 2]
    return ps


def leaf_applies(leaf, env):
    return bool(applicable_protocols(leaf, env))


def sample(leaf, probs):
    d = leaf.describe()
    d["problems"] = probs
    return d


def iter_emit_leaves(env, res, tr):
    """can_emit==true leaves of every opcode; Unanalysable arms become findings"""
    for op, lvs in tr.items():
        if isinstance(lvs, Exception):
            res.add("engine", "unanalysable/%s" % op, "opcode arm %s cannot be analysed (fails closed): %s" % (op, lvs),
                    op_loc(env, "::can_emit"))
            continue
        for lf in lvs:
            if lf.can_emit and leaf_applies(lf, env):
                yield op, lf


def coverage_mc(res, env, tr, nleaves, nobl, samples, extra=None):
    states = set()
    for op, lvs in tr.items():
        if isinstance(lvs, Exception):
            continue
        for lf in lvs:
            states.add((tuple(tuple(sorted(c["kinds"])) for c in lf.pre), lf.base_open, lf.memo_n0, lf.version,
                        tuple(sorted((k, v) for k, v in lf.flags.items()))))
    res.coverage.update({
        "states": len(states),
        "transitions": nobl,
        "traces_validated_against_impl": 0,
        "samples": samples[:6],
        "leaves": nleaves,
        "opcode_arms": len(tr),
        "depth_bound_D": env.depth_bound(),
        "memo_size_classes": list(G.MEMO_CLASSES),
        "exhaustive": True,
        "explanation": "abstract states = distinct materialised pre-states (kind window, memo size class, flags, protocol) of the "
                       "MIR abstract interpretation of can_emit;emit_and_process for every OpcodeKind; transitions = leaf x reference-effect "
                       "comparisons. Nothing is executed: traces_validated_against_impl is 0 by construction.",
    })
    if extra:
        res.coverage.update(extra)


ASSUME_PVM = [
    "stack windows deeper than D are covered only through the window argument of DESIGN.md 3.4 (every inspected atom is a length/kind/mark test near the top or the top-most MARK)",
    "memo.len() < 2^32; memo key set is {0..n-1} (part of Inv, preserved by the PUT rules R02.a)",
    "library contracts of models.py/models2.py (Vec, Option, RefCell, rand, arbitrary) describe the linked std/deps",
    "reference machine = reference/pvm_spec.json (flat-stack pickletools.dis semantics, written from CPython)",
]


# ----------------------------------------------------------------------------------------
def rule_C17(env):
    res = Result("C17", "model_checking")
    tr = get_trans(env)
    spec = env.spec
    n = nobl = 0
    samples = []
    for op, lf in iter_emit_leaves(env, res, tr):
        n += 1
        res.count("O3")
        if lf.end is not None:
            if lf.end[0] == "panic":
                continue  # panics are C09's business
            if lf.end[0] == "bound":
                res.add("O3", "%s/bound" % op, "analysis bound hit in %s: %s" % (op, lf.end[1]), op_loc(env, "::process_stack_ops"))
                continue
        for a_name, fn in (("O3", R.o3_check), ("O3m", R.memo_effect_check)):
            nobl += 1
            try:
                probs = fn(spec, lf)
            except (KeyError, AssertionError, OverflowError) as e:
                probs = ["cannot evaluate: %r" % (e,)]
            if probs:
                res.add(a_name, "process_stack_ops/%s/%s" % (op, probs[0].split(":")[0][:60].replace(" ", "_")),
                        "simulated effect of %s differs from the reference machine: %s" % (op, "; ".join(probs)),
                        op_loc(env, "::process_stack_ops"), sample(lf, probs))
        # O5: the key the simulation looks up / stores equals the emitted one
        for p in memo_key_identity(lf):
            nobl += 1
            res.add("O5", "emit_and_process/%s/memo-key-identity" % op, p, op_loc(env, "::emit_and_process"), sample(lf, [p]))
        if len(samples) < 6 and lf.pre:
            samples.append(sample(lf, []))
    res.floor("O3", 300, "emission leaves")
    guard_premise(env, res, "C17")
    import rules_c04
    tmp = Result("C17", "model_checking")
    rules_c04.emission_findings(env, tmp, tr, "safe")
    for f in tmp.findings:
        res.add("O5", f.key.split("/", 2)[2], "the reference machine executes the emitted bytes, which are not the single well-formed opcode the simulation assumes: " + f.msg,
                f.where, f.detail)
    bfs = bfs_pass(env, res, "C17")
    coverage_mc(res, env, tr, n, nobl, samples, bfs)
    res.assumptions = ASSUME_PVM
    return res


def guard_premise(env, res, pid):
    """every per-opcode obligation assumes that the opcode was chosen among those whose guard holds IN THE CURRENT STATE:
    the loop structure of generate_internal (fresh get_valid_opcodes -> weighted_choice -> emit_and_process) is a shared premise"""
    import rules_c01
    tmp = Result(pid, "model_checking")
    rules_c01.generate_structure_checks(env, tmp)
    for f in tmp.findings:
        if "/R01.a/" in f.key or "/engine/" in f.key:
            res.add("premise", f.key.split("/", 2)[2], "the guards are not what decides which opcode is emitted: " + f.msg, f.where, f.detail)
    proto_invariant_premise(env, res, pid)
    default_flags_premise(env, res, ["unsafe_mutations"], "a generator nobody asked unsafe mutations of must be in safe mode")


def default_config(env):
    """the Generator a user gets from Generator::new(version): field name -> value (interpreted, memoised)"""
    def compute():
        from interp import Interp, explore
        import harness as H
        prog, ctx = env.prog, env.ctx
        k = prog.find("generator::Generator::new")
        mf = H.models_factory(prog, ctx, None)
        outs = []

        def one(run):
            I = Interp(prog, run, mf())
            return I.call(k, [ctx.version_value(3)])
        for run, r, pe in explore(one, max_runs=20):
            if pe is not None:
                raise Unanalysable("Generator::new does not return normally: %s" % (pe.info,))
            outs.append(dict(zip(ctx.fields(ctx.gen_adt), r.fields)))
        if len(outs) != 1:
            raise Unanalysable("Generator::new has %d outcomes" % len(outs))
        return outs[0]
    return env.memo("default_config", compute)


def default_flags_premise(env, res, flags, why):
    """the default configuration is the one the property statements call 'default' / 'without ...': these flags are off in it"""
    loc = None
    try:
        loc = env.loc(env.prog.find("generator::Generator::new"))
        d = default_config(env)
    except Unanalysable as e:
        res.add("premise", "default-config/unanalysable", "Generator::new cannot be interpreted: %s" % e, loc)
        return
    for fl in flags:
        res.count("premise.default")
        v = d.get(fl, "missing")
        if v is not False:
            res.add("premise", "default-config/%s" % fl, "Generator::new() leaves %s = %r: %s" % (fl, v, why), loc)
    builder_flags_premise(env, res, flags)


FLAG_FIELDS = ("unsafe_mutations", "allow_ext_opcodes", "allow_buffer_opcodes")


def builder_flag_findings(env):
    """The three mode flags are what the property statements mean by "without unsafe mutations" / "unless enabled": every
    configuration method of Generator (`with_*`, `set_*`, `add_*`, `clear_*`) is interpreted on an abstract generator with
    abstract arguments; afterwards each flag is either untouched or is exactly a boolean ARGUMENT of that call.  (A builder
    that derives a flag from other state - e.g. from the registered mutators - switches a mode on nobody asked for.)"""
    def compute():
        from interp import Interp, explore
        import harness as H
        import absgen as G
        prog, ctx = env.prog, env.ctx
        out = []
        mf = H.models_factory(prog, ctx, None)
        names = ctx.fields(ctx.gen_adt)
        keys = sorted(k for k in prog.bodies if re.match(r"generator::Generator::(with|set|add|clear|enable|disable)_\w+$", k))
        n = 0
        for k in keys:
            body = prog.bodies[k]
            tys = [str(body["locals"][i].get("ty", "")) for i in range(1, body["arg_count"] + 1)]
            if not tys or "Generator" not in tys[0]:
                continue

            def one(run, k=k, tys=tys):
                I = Interp(prog, run, mf())
                h = ctx.make_generator(depth_bound=2)
                args, bools = [], []
                for i, ty in enumerate(tys):
                    if i == 0:
                        args.append(h.ref() if ty.startswith("&") else h.g)
                    elif ty == "bool":
                        b = G.LazyBool("arg%d" % i)
                        bools.append(b)
                        args.append(b)
                    elif ty in INT_TYPES or ty == "f64":
                        args.append(Sym("arg%d" % i, (), ty))
                    elif "dyn mutators::Mutator" in ty and ty.startswith("std::vec::Vec<"):
                        args.append(G.AbsMutators(ctx))
                    elif "dyn mutators::Mutator" in ty:
                        args.append(M.BoxVal(G.DynMutator(0)))
                    elif ty.startswith("std::option::Option<") and ty[20:-1] in INT_TYPES:
                        args.append(G.LazyOption("arg%d" % i, ty[20:-1]))
                    else:
                        args.append(G.generic_unknown(prog, "arg%d" % i, ty, []))     # enums, small structs, byte vectors ...
                one.last = (h, bools, None)
                r = I.call(k, args)
                return (h, bools, r)
            try:
                for run, rr, pe in explore(one, max_runs=200):
                    n += 1
                    if pe is not None:
                        continue
                    h, bools, r = rr
                    g = r if (isinstance(r, Agg) and r.adt == ctx.gen_adt) else h.g
                    for fl in FLAG_FIELDS:
                        new, old = g.fields[names.index(fl)], h.special[fl]
                        if new is old:
                            continue
                        if any(new is b for b in bools):
                            continue
                        argvals = [b.value for b in bools if b.value is not None]
                        if isinstance(new, bool) and bools and all(b.value is not None for b in bools) and len(bools) == 1 and new == bools[0].value:
                            continue
                        out.append((k, fl, repr(new)))
            except Unanalysable as e:
                out.append((k, "unanalysable", str(e)[:160]))
        return out, n
    return env.memo("builder_flags", compute)


def builder_flags_premise(env, res, flags):
    found, n = builder_flag_findings(env)
    res.count("premise.builders", n)
    for k, fl, what in found:
        if fl == "unanalysable":
            res.add("premise", "builder/%s/unanalysable" % k.split("::")[-1], "configuration method %s cannot be interpreted: %s" % (k, what), env.loc(k))
        elif fl in flags:
            res.add("premise", "builder/%s/%s" % (k.split("::")[-1], fl), "%s sets Generator.%s to %s, which is neither its previous value nor the method's own "
                    "boolean argument: the mode is switched by something the user did not ask for" % (k, fl, what), env.loc(k))


def proto_invariant_premise(env, res, pid):
    """per-opcode leaves are analysed under proto_emitted == (P >= 2): its establishment and preservation (checked by C05 R05.c)
    is a premise of every rule that uses those leaves"""
    import rules_c05
    r5 = env.memo("C05-result", lambda: rules_c05.rule_C05(env))
    for f in r5.findings:
        if "/R05.c/" in f.key and "proto_emitted" in f.key:
            res.add("premise", f.key.split("/", 2)[2], "the loop invariant proto_emitted == (protocol >= 2) does not hold, so PROTO can be "
                    "chosen inside the body: " + f.msg, f.where, f.detail)


def memo_key_identity(lf):
    """R02.d: index parsed back by process_stack_ops is the emitted index"""
    out = []
    gets = [e for e in lf.events if e[0] in ("memo_get", "memo_get_miss")]
    puts = [e for e in lf.events if e[0] == "memo_put"]
    if not gets and not puts:
        return out
    if lf.op == "Memoize":
        return out  # MEMOIZE has no argument; its key rule is R02.a (store under len(memo))
    parts, probs = E.final_parts(lf.writes)
    cur = E.Cursor(parts)
    opb = cur.take_byte()
    arg = cur.rest()
    emitted = None
    for p in arg:
        if p[0] == "disp":
            emitted = p[1]
        elif p[0] == "u8":
            emitted = p[1]
        elif p[0] == "int":
            emitted = p[1]
            if p[3] != "le" and p[5] - p[4] > 1:
                out.append("the index argument is written %s-endian but readers decode it little-endian: the bytes name a different memo key than the simulation uses" % p[3])
        elif p[0] == "lit" and emitted is None:
            b = p[1]
            if b.endswith(b"\n"):
                try:
                    emitted = int(b.strip())
                except ValueError:
                    pass
            elif len(b) in (1, 4):
                emitted = int.from_bytes(b, "little")
    for e in gets + puts:
        k = e[1]
        ek = E.strip_casts(emitted) if emitted is not None else None
        kk = E.strip_casts(k)
        same = (ek is kk) or (isinstance(ek, int) and isinstance(kk, int) and ek == kk) or (
            is_sym(ek) and is_sym(kk) and ek.key() == kk.key())
        if not same:
            out.append("simulation uses memo key %r but the emitted argument is %r" % (k, emitted))
    return out


# ----------------------------------------------------------------------------------------
def rule_C03(env):
    res = Result("C03", "model_checking")
    tr = get_trans(env)
    spec = env.spec
    n = nobl = 0
    samples = []
    listed = set()
    for op, lf in iter_emit_leaves(env, res, tr):
        sp = spec.spec(op)
        if not sp["kinds"]:
            continue
        listed.add(op)
        n += 1
        res.count("R03.a")
        nobl += 1
        try:
            probs = R.o2_check(spec, lf)
        except (KeyError, AssertionError, OverflowError) as e:
            probs = ["cannot evaluate: %r" % (e,)]
        if probs:
            res.add("R03.a", "can_emit/%s/%s" % (op, probs[0][:70].replace(" ", "_")),
                    "guard of %s does not establish the operand kinds the reference machine requires: %s" % (op, "; ".join(probs)),
                    op_loc(env, "::can_emit"), sample(lf, probs))
        if len(samples) < 6:
            samples.append(sample(lf, []))
    # the kinds the guards see are only meaningful if the simulation tracks the kinds the bytes produce:
    # kind part of O3 and the memo-key identity O5 for every leaf (prerequisite shared with C17)
    for op, lf in iter_emit_leaves(env, res, tr):
        if lf.end is not None:
            continue
        nobl += 1
        res.count("R03.c")
        try:
            p3 = R.o3_check(spec, lf)
        except (KeyError, AssertionError, OverflowError) as e:
            p3 = ["cannot evaluate: %r" % (e,)]
        # kinds are tracked per slot: a slot whose kind differs, and equally a depth that differs (every slot shifts), make the
        # later kind guards look at the wrong object
        p3 = [p for p in p3 if (p.startswith("slot ") and "mark" not in p.lower()) or "depth differs" in p]
        if p3:
            res.add("R03.c", "process_stack_ops/%s/kind-drift" % op,
                    "the simulated kind after %s differs from the kind the bytes produce, so later kind guards test the wrong kind: %s" % (op, "; ".join(p3)),
                    op_loc(env, "::process_stack_ops"), sample(lf, p3))
        for p in memo_key_identity(lf):
            res.add("R03.c", "emit_and_process/%s/memo-key-identity" % op,
                    "%s: %s - the simulation records the kind of a different memo entry than the one the bytes fetch" % (op, p), op_loc(env, "::emit_and_process"), sample(lf, [p]))
    res.floor("R03.a", 40, "guarded leaves of kind-constrained opcodes")
    guard_premise(env, res, "C03")
    # GET pushes what the simulation stored: the simulated memo must get an entry exactly when the reference machine does
    for op, lf in iter_emit_leaves(env, res, tr):
        if lf.end is not None or spec.spec(op) is None:
            continue
        stores = [e for e in lf.events if e[0] == "memo_put"]
        want = 1 if spec.spec(op)["memo"] in ("put", "memoize") else 0
        if len(stores) != want:
            res.add("R03.c", "process_stack_ops/%s/memo-store-count" % op,
                    "%s stores %d entries into the simulated memo, the reference machine stores %d: later GETs push a kind the bytes do not have" % (op, len(stores), want),
                    op_loc(env, "::process_stack_ops"), sample(lf, []))
    # the reference machine computes kinds from the BYTES: an emission that is not the one well-formed opcode the simulation
    # assumes makes it execute something else from there on (O5, shared with C01/C17)
    import rules_c04
    tmp = Result("C03", "model_checking")
    rules_c04.emission_findings(env, tmp, tr, "safe")
    for f in tmp.findings:
        res.add("O5", f.key.split("/", 2)[2], "the reference machine executes the emitted bytes, which are not the single well-formed opcode the "
                "simulation assumes: " + f.msg, f.where, f.detail)
    # vacuity guard: the kind-constrained opcodes must all have been put through the transition analysis (an opcode whose
    # guard is unsatisfiable has no enabled leaf and is vacuously fine here - that is C12's business, not C03's)
    analysed = {op for op, lvs in tr.items() if not isinstance(lvs, Exception) and (spec.spec(op) or {}).get("kinds")}
    if len(analysed | listed) < 17:
        res.add("R03.a", "floor-ops", "only %d kind-constrained opcodes were analysed (expected 17+)" % len(analysed | listed))
    bfs = bfs_pass(env, res, "C03")
    coverage_mc(res, env, tr, n, nobl, samples, bfs)
    res.assumptions = ASSUME_PVM + ["helper predicates (is_*_at, count_items_to_mark, has_mark ...) are interpreted, not trusted"]
    return res


# ----------------------------------------------------------------------------------------
def bfs_pass(env, res, pid):
    import bfs
    return bfs.run(env, res, pid)
