"""Harness: run crate functions on the abstract generator and collect leaves."""
import sys, os
sys.path.insert(0, os.path.dirname(os.path.abspath(__file__)))
import facts
from interp import Program, Interp, Run, explore
from values import *
import models as M
import models2 as M2
import absgen as G


def models_factory(prog, ctx, unsafe_mode=False):
    import mutsum, entsum
    def mk():
        mods = M.Models(prog)
        std_overrides(prog, ctx, mods)
        mods.extra["virtual"] = mutsum.make_virtual_model(prog, ctx, unsafe_mode, mk)
        entsum.install(prog, mods, mk)
        return mods
    return mk


def std_overrides(prog, ctx, mods):
    so_clone = [k for k in prog.bodies if k.endswith("StackObject as std::clone::Clone>::clone")]
    for k in so_clone:
        mods.overrides[k] = so_clone_model
    return mods


def so_clone_model(I, f, a):
    v = M.deref(I, a[0])
    if isinstance(v, G.LazyObj):
        return v.clone()
    if isinstance(v, Agg):
        fs = []
        for x in v.fields:
            if isinstance(x, M.VecObj):
                fs.append(M.VecObj(list(x.elems), x.ety))
            elif isinstance(x, Bytes):
                fs.append(x.copy())
            elif isinstance(x, G.MapObj):
                c = G.MapObj(); c.items = list(x.items); fs.append(c)
            else:
                fs.append(x)
        return Agg(v.adt, v.variant, fs, v.discr, v.vname)
    raise I.unanalysable("StackObject::clone on %r" % (v,))


class Leaf:
    pass


def leaves_of(prog, ctx, fn_suffix, mkargs, depth_bound=7, stubs=None, gen_kwargs=None, extra_models=None, max_runs=200000, unsafe_mode=False):
    key = prog.find(fn_suffix)
    out = []
    mf = models_factory(prog, ctx, unsafe_mode)
    def one(run):
        mods = mf()
        if extra_models:
            extra_models(mods)
        I = Interp(prog, run, mods, stubs=stubs)
        h = ctx.make_generator(depth_bound=depth_bound, **(gen_kwargs or {}))
        args = mkargs(I, h)
        res = I.call(key, args)
        return (I, h, res)
    for run, res, pe in explore(one, max_runs=max_runs):
        lf = Leaf()
        lf.run = run
        lf.end = pe
        if res is not None:
            lf.I, lf.h, lf.ret = res
        else:
            lf.I = lf.h = lf.ret = None
        out.append(lf)
    return out


if __name__ == "__main__":
    prog = Program(facts.load_unit("lib"))
    ctx = G.Ctx(prog)
    op = sys.argv[1] if len(sys.argv) > 1 else "Append"
    lvs = leaves_of(prog, ctx, "::can_emit", lambda I, h: [h.ref(), ctx.opcode_value(op)])
    for lf in lvs:
        h = lf.h
        pre = [sorted(ctx.kind_names[k] for k in c.box.v.kv.possible) if len(c.box.v.kv.possible) < 17 else "*" for c in h.stack.orig]
        print(lf.ret, "open" if h.stack.base_open else "closed", pre, [ (l) for l in lf.run.labels[:lf.run.pos]][:0], lf.run.script[:lf.run.pos])
    print(len(lvs), "leaves")
