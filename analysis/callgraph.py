"""E4: resolved call graph over the exported MIR (no interpretation)."""
from values import Unanalysable


def iter_blocks(body):
    for b in body["blocks"]:
        yield b
    for p in body.get("promoted", []):
        for b in p["blocks"]:
            yield b


def walk_json(x, fn):
    if isinstance(x, dict):
        fn(x)
        for v in x.values():
            walk_json(v, fn)
    elif isinstance(x, list):
        for v in x:
            walk_json(v, fn)


class CallGraph:
    def __init__(self, prog):
        self.prog = prog
        self.edges = {}      # key -> list of (callee key or external path, term json, resolved kind)
        self.closures = {}   # key -> closure keys constructed in the body
        self.fnrefs = {}     # key -> fn items referenced as values
        self.statics = {}    # key -> statics referenced
        for k, b in prog.bodies.items():
            es = []
            cl = set()
            fr = set()
            sr = set()
            for blk in iter_blocks(b):
                if blk["cleanup"]:
                    continue
                t = blk["t"]
                if t["k"] == "call":
                    f = t["f"]
                    if "indirect" in f:
                        es.append(("<indirect>", t, "indirect"))
                    else:
                        res = f.get("res") or {}
                        tgt = None
                        for cand in (res.get("path"), f.get("path")):
                            if cand in prog.bodies:
                                tgt = cand
                                break
                        kind = res.get("kind")
                        if tgt is None and f.get("trait") and kind in (None, "unresolved") and any(i["trait"] == f["trait"] for i in prog.impls):
                            # a call on `Self` / a generic receiver of a crate-local trait: dispatches to the crate's impls
                            kind = "virtual"
                        es.append((tgt or res.get("path") or f.get("path"), t, kind))

                def visit(d, cl=cl, fr=fr, sr=sr):
                    if d.get("t") == "closure" and "closure" in d:
                        cl.add(d["closure"])
                    if "static" in d and isinstance(d["static"], str):
                        sr.add(d["static"])
                    if d.get("k") == "tlref":
                        sr.add("thread_local:" + d.get("def", "?"))
                    if "fn" in d and isinstance(d["fn"], dict) and "path" in d["fn"]:
                        fr.add(((d["fn"].get("res") or {}).get("path") or d["fn"]["path"]))
                for st in blk["s"]:
                    walk_json(st, visit)
                walk_json(t.get("args", []), visit)
            self.edges[k] = es
            self.closures[k] = cl
            self.fnrefs[k] = fr
            self.statics[k] = sr

    def calls_of(self, key, external=False):
        return [e for e in self.edges.get(key, []) if external or e[0] in self.prog.bodies]

    def callers(self, key):
        return {k for k, es in self.edges.items() if any(e[0] == key for e in es)}

    def virtual_targets(self, term):
        """impl bodies a `dyn Trait` call may reach"""
        f = term["f"]
        tr = f.get("trait")
        name = f.get("name")
        out = []
        if not tr:
            return out
        for i in self.prog.impls:
            if i["trait"] == tr:
                hit = [it["key"] for it in i["items"] if it["name"] == name]
                if hit and hit[0] in self.prog.bodies:
                    out.append(hit[0])
                elif (tr + "::" + name) in self.prog.bodies:
                    out.append(tr + "::" + name)
        return sorted(set(out))

    def reachable(self, roots):
        """bodies reachable from roots (calls, closures built, fn items referenced, dyn targets)"""
        seen = set()
        work = list(roots)
        while work:
            k = work.pop()
            if k in seen or k not in self.prog.bodies:
                continue
            seen.add(k)
            for tgt, term, kind in self.edges.get(k, []):
                if tgt in self.prog.bodies:
                    work.append(tgt)
                if kind == "virtual":
                    work.extend(self.virtual_targets(term))
            work.extend(self.closures.get(k, ()))
            work.extend(x for x in self.fnrefs.get(k, ()) if x in self.prog.bodies)
        return seen

    def external_calls(self, keys):
        """[(caller, external path, term)] for all calls leaving the crate from `keys`"""
        out = []
        for k in sorted(keys):
            for tgt, term, kind in self.edges.get(k, []):
                if tgt not in self.prog.bodies and kind != "virtual":
                    out.append((k, tgt, term))
        return out
