"""Transition extraction: for every opcode k, the leaves of  can_emit(k) [; emit_and_process(k)]
on the lazily materialised abstract generator state, summarised as plain data."""
import time

from values import Agg, Box_, Bytes, PathEnd, Ref, Sym, Unanalysable, is_sym, bounds
import models as M
import absgen as G
import harness as H
from interp import Interp, explore


class LeafSum:
    """plain-data summary of one path"""
    __slots__ = ("op", "can_emit", "pre", "base_open", "bound_hit", "post", "flags", "version", "memo_n0", "memo_events",
                 "events", "writes", "panics", "end", "ret", "atoms", "src_mode", "mutators_empty", "script",
                 "proto_emitted_pre", "proto_emitted_post", "out_marks", "steps", "unsafe_mode", "popped", "config_changes",
                 "extra_read", "extra_changed")

    def describe(self):
        pre = ["|".join(sorted(c["kinds"])) if len(c["kinds"]) <= 4 else "*(%d)" % len(c["kinds"]) for c in self.pre]
        return {"op": self.op, "pre_stack_top_first": pre, "base": "open" if self.base_open else "closed",
                "flags": self.flags, "version": self.version, "memo_n0": self.memo_n0,
                "post_top_first": [("|".join(sorted(c["kinds"])) if len(c["kinds"]) <= 4 else "*") for c in reversed(self.post)][:6],
                "end": self.end}


def cell_info(ctx, sref, kvmap):
    cell = sref.fields[0] if isinstance(sref, Agg) else sref
    v = cell.box.v
    if isinstance(v, G.LazyObj):
        kv = v.kv
        kinds = frozenset(ctx.kind_names[i] for i in kv.possible)
        kvid = id(kv)
        kvmap.setdefault(kvid, kv.label)
        return {"cell": cell.id, "origin": cell.origin, "kv": kvid, "kvl": kv.label, "kinds": kinds,
                "orig_depth": getattr(cell, "orig_depth", None)}
    if isinstance(v, Agg):
        return {"cell": cell.id, "origin": cell.origin, "kv": None, "kvl": None,
                "kinds": frozenset([ctx.kind_names[v.variant]]), "orig_depth": getattr(cell, "orig_depth", None)}
    raise Unanalysable("stack cell holds %r" % (v,))


def summarise(ctx, op, run, I, h, can, ret, end, unsafe_mode):
    s = LeafSum()
    kvmap = {}
    s.op = op
    s.can_emit = can
    s.unsafe_mode = unsafe_mode
    s.pre = [cell_info(ctx, c, kvmap) for c in h.stack.orig]
    s.base_open = h.stack.base_open
    s.bound_hit = h.stack.bound_hit
    s.post = [cell_info(ctx, c, kvmap) for c in h.stack.cur]
    s.flags = {n: h.flag(n) for n in ("unsafe_mutations", "allow_ext_opcodes", "allow_buffer_opcodes")}
    ver = h.version
    if isinstance(ver, G.LazyEnum):
        s.version = ver.chosen[2] if ver.chosen else None
    else:
        s.version = ver.vname
    s.memo_n0 = h.memo.n0
    s.events = list(run.events)
    s.memo_events = [e for e in run.events if e[0].startswith("memo_")]
    s.writes = list(h.out.writes)
    s.out_marks = list(h.out.marks)
    s.panics = list(run.panics)
    s.end = end
    s.ret = ret
    s.atoms = list(run.atom_log)
    s.src_mode = getattr(h, "src", None).mode() if getattr(h, "src", None) is not None else None
    s.mutators_empty = h.mutators.empty if isinstance(h.mutators, G.AbsMutators) else None
    s.script = run.script[:run.pos]
    pe = h.proto_emitted
    s.proto_emitted_pre = pe.value if isinstance(pe, G.LazyBool) else pe
    cur = h.g.fields[h.ctx.field_index(h.ctx.gen_adt, "state")].fields[h.ctx.field_index(h.ctx.state_adt, "proto_emitted")]
    s.proto_emitted_post = (cur.value if isinstance(cur, G.LazyBool) else cur)
    if cur is pe:
        s.proto_emitted_post = "unchanged"
    s.steps = run.steps
    s.config_changes = h.config_changes()
    s.extra_read = ["state." + n for n in h.extra_scratch_read_at_entry(s.atoms, s.writes)] + h.extra_gen_read_at_entry(s.atoms, s.writes)
    s.extra_changed = h.extra_state_changed() + h.extra_gen_changed()
    s.popped = [e[1].id for e in run.events if e[0] == "pop"]
    return s


def transitions(prog, ctx, op, depth_bound=7, unsafe_mode=False, emit=True, version=None, flags=None,
                memo_classes=G.MEMO_CLASSES, max_iter=1):
    """leaves of can_emit(op) (and, when true and emit=True, of emit_and_process(op))"""
    ce_key = prog.find("::can_emit")
    ep_key = prog.find("::emit_and_process")
    mf = H.models_factory(prog, ctx, unsafe_mode)
    out = []

    def one(run):
        mods = mf()
        I = Interp(prog, run, mods)
        fl = dict(flags or {})
        if unsafe_mode is False:
            fl.setdefault("unsafe_mutations", False)
        h = ctx.make_generator(depth_bound=depth_bound, version=version, flags=fl, memo_classes=memo_classes,
                               mutators=G.AbsMutators(ctx, max_iter=max_iter))
        one.last = {"I": I, "h": h, "can": None, "ret": None}
        opv = ctx.opcode_value(op)
        extra = []
        if prog.bodies[ce_key]["arg_count"] > 2:
            # can_emit takes more than (self, opcode): the extra arguments are whatever its caller get_valid_opcodes computes from
            # the state for THIS opcode.  Run the caller on the same abstract state (same decision script) with can_emit stubbed:
            # candidates before `op` are answered "no", the call for `op` hands over its arguments.
            class _Captured(Exception):
                pass

            def _stub(I2, k, a, opname=op):
                if getattr(a[1], "vname", None) == opname:
                    e = _Captured()
                    e.extra = list(a[2:])
                    raise e
                return False
            gv_key = prog.find("::get_valid_opcodes")
            I0 = Interp(prog, run, mf(), stubs={ce_key: _stub})
            try:
                I0.call(gv_key, [h.ref()])
                extra = None          # not a candidate in this protocol's row: it cannot be chosen on this path at all
            except _Captured as e:
                extra = e.extra
        can = False if extra is None else I.truth(I.call(ce_key, [h.ref(), opv] + extra))
        st = {"I": I, "h": h, "can": can, "ret": None}
        one.last = st
        if can and emit:
            src = G.AbsSource(prog)
            h.src = src
            st["ret"] = I.call(ep_key, [h.ref(), ctx.opcode_value(op), Ref(Box_(src, "source"), ())])
        return st
    for run, res, pe in explore(one):
        st = res if res is not None else one.last
        end = None if pe is None else (pe.kind, str(pe.info))
        out.append(summarise(ctx, op, run, st["I"], st["h"], st["can"], st["ret"], end, unsafe_mode))
    return out


def all_transitions(prog, ctx, **kw):
    res = {}
    t0 = time.time()
    for op in prog.variant_names(ctx.opcode_adt):
        try:
            res[op] = transitions(prog, ctx, op, **kw)
        except Unanalysable as e:
            res[op] = e
    return res, time.time() - t0
