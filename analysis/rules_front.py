"""C13: CLI, batch mode, action wrapper and Python bindings equal the library.
main() (linked with the library bodies) and the PyGenerator methods are interpreted on an abstract
Cli / abstract arguments; the configuration of the generator at the moment generate() is called is
compared with the option values; the non-Rust front ends are parsed (shell words, YAML subset, Python ast)."""
import ast
import os
import re

import facts
import shellai as SH
import absgen as G
import harness as H
import models as M
import models2 as M2
import callgraph as CG
import cfg
import mutsum
from framework import Result
from interp import Interp, Program, explore
from models import MODELS, model
from values import (Agg, Box_, Bytes, Opaque, PathEnd, Payload, Ref, Sym, Unanalysable, bounds, err, is_none, is_some, is_sym,
                    none, ok, some, unit)


# ---------------------------------------------------------------------------------------- models used only here
class PathObj:
    def __init__(self, base, parts=()):
        self.base = base
        self.parts = list(parts)

    def __repr__(self):
        return "Path(%s/%r)" % (self.base, self.parts)


@model("<std::path::PathBuf as std::clone::Clone>::clone")
def _pathbuf_clone(I, f, a):
    p = M.deref(I, a[0])
    if isinstance(p, PathObj):
        return PathObj(p.base, p.parts)
    return Opaque("path")


@model("std::path::PathBuf::push")
def _pathbuf_push(I, f, a):
    p = M.deref(I, a[0])
    if isinstance(p, PathObj):
        p.parts.append(M.deref(I, a[1]))
    return unit()


@model("std::path::Path::join")
def _path_join(I, f, a):
    p = M.deref(I, a[0])
    if isinstance(p, PathObj):
        return PathObj(p.base, list(p.parts) + [M.deref(I, a[1])])
    return Opaque("path")


@model("<std::path::PathBuf as std::ops::Deref>::deref")
def _pathbuf_deref(I, f, a):
    return a[0] if isinstance(a[0], Ref) else Ref(Box_(a[0], "path"), ())


@model("std::path::Path::exists")
def _path_exists(I, f, a):
    return bool(I.run.choose(2, "dir exists"))


@model("std::fs::create_dir", "std::fs::create_dir_all")
def _create_dir(I, f, a):
    I.run.event("fs_create_dir", M.deref(I, a[0]))
    return ok(unit()) if I.run.choose(2, "create_dir ok") else err(Opaque("io::Error"))


@model("std::fs::write")
def _fs_write(I, f, a):
    I.run.event("fs_write", M.deref(I, a[0]), M.deref(I, a[1]))
    return ok(unit()) if I.run.choose(2, "fs::write ok") else err(Opaque("io::Error"))


class FileObj:
    def __init__(self, path):
        self.path = path


class BufW:
    """BufWriter<File>: write_all only fills the buffer; the bytes reach the file at flush() - or at drop, where errors are lost"""

    def __init__(self, inner):
        self.inner = inner
        self.pending = []


class OpenOpts:
    def __init__(self):
        self.flags = {}


@model("std::fs::OpenOptions::new")
def _oo_new(I, f, a):
    return OpenOpts()


@M.model_re(r"^(std::fs::OpenOptions::(write|create|truncate|append|read|create_new)|<std::fs::OpenOptions as std::os::unix::fs::OpenOptionsExt>::(mode|custom_flags)|std::os::unix::fs::OpenOptionsExt::(mode|custom_flags))$")
def _oo_set(I, f, a):
    o = M.deref(I, a[0])
    name = (f.get("path") or "").split("::")[-1]
    if isinstance(o, OpenOpts):
        v = a[1]
        o.flags[name] = v.as_bool(I) if hasattr(v, "as_bool") else v
    return a[0]


@model("std::fs::OpenOptions::open")
def _oo_open(I, f, a):
    o = M.deref(I, a[0])
    p = M.deref(I, a[1])
    if not I.run.choose(2, "File::create ok"):
        I.run.event("fs_open_failed", p)
        return err(Opaque("io::Error"))
    fo = FileObj(p)
    fl = o.flags if isinstance(o, OpenOpts) else {}
    fo.keeps_old_content = bool(fl.get("write")) and not fl.get("truncate") and not fl.get("create_new")
    fo.appends = bool(fl.get("append"))
    return ok(fo)


@model("std::fs::File::create")
def _file_create(I, f, a):
    p = M.deref(I, a[0])
    if I.run.choose(2, "File::create ok"):
        return ok(FileObj(p))
    I.run.event("fs_open_failed", p)
    return err(Opaque("io::Error"))


@model("std::io::BufWriter::<W>::new", "std::io::BufWriter::<W>::with_capacity")
def _bufwriter_new(I, f, a):
    w = BufW(a[-1])
    I.run.__dict__.setdefault("bufws", []).append(w)
    return w


@model("std::io::Write::write_all")
def _write_all(I, f, a):
    w = M.deref(I, a[0])
    data = M.deref(I, a[1])
    if isinstance(w, BufW):
        w.pending.append(data)
        return ok(unit())
    if isinstance(w, FileObj):
        if getattr(w, "keeps_old_content", False) or getattr(w, "appends", False):
            I.run.event("fs_write_over_old_content", w.path, data)
        I.run.event("fs_write", w.path, data)
        return ok(unit()) if I.run.choose(2, "fs::write ok") else err(Opaque("io::Error"))
    raise I.unanalysable("write_all on %r" % type(w).__name__)


@model("std::io::Write::flush")
def _write_flush(I, f, a):
    w = M.deref(I, a[0])
    if isinstance(w, BufW):
        pend, w.pending = w.pending, []
        if isinstance(w.inner, FileObj) and len(pend) == 1:
            I.run.event("fs_write", w.inner.path, pend[0])
            return ok(unit()) if I.run.choose(2, "fs::write ok") else err(Opaque("io::Error"))
        if not pend:
            return ok(unit())
        raise I.unanalysable("flush of %d buffered pieces" % len(pend))
    return ok(unit())


@model("std::io::_print", "std::io::_eprint")
def _print(I, f, a):
    return unit()


@model("color_eyre::install")
def _ce_install(I, f, a):
    return ok(unit())


@M.model_re(r"^pyo3::exceptions::Py[A-Za-z]+::new_err$")
def _py_new_err(I, f, a):
    return Opaque("PyErr")


@model("rand::rng")
def _rand_rng(I, f, a):
    I.run.event("os_entropy", I.where())
    return Opaque("ThreadRng")


class ParIter:
    def __init__(self, lo, hi):
        self.lo, self.hi, self.f = lo, hi, None


@model("rayon::range::<impl rayon::iter::IntoParallelIterator for std::ops::Range<T>>::into_par_iter")
def _into_par_iter(I, f, a):
    r = a[0]
    I.run.event("par_range", r.fields[0], r.fields[1])
    return ParIter(r.fields[0], r.fields[1])


@model("rayon::iter::ParallelIterator::filter_map")
def _par_filter_map(I, f, a):
    a[0].f = a[1]
    return a[0]


@model("rayon::iter::ParallelIterator::map")
def _par_map(I, f, a):
    a[0].f = a[1]
    a[0].kind = "map"
    return a[0]


@model("rayon::iter::ParallelIterator::collect")
def _par_collect(I, f, a):
    """one abstract element of the index space; the collected Vec is empty or not accordingly"""
    it = a[0]
    if I.truth(I.binop("Ge", it.lo, it.hi, "usize")):
        return M.VecObj([])
    if getattr(it, "kind", None) == "map":
        # map(..).collect::<Vec<_>>(): one abstract index stands for every sample; its outcome is the (only modelled) element
        idx = Sym("idx", (), "usize", bounds(it.lo)[0], bounds(it.hi)[1] - 1, attrs={"name": "idx", "rel": [("lt_arg", 0)], "rel_args": [it.hi]})
        I.run.event("par_call", idx)
        r = I.call_closure(it.f, [idx])
        if isinstance(r, Agg) and getattr(r, "vname", None) == "Err" or (isinstance(r, Agg) and r.adt == M.RESULT and r.variant == 1):
            I.run.event("par_error", r.fields[0])
        return M.VecObj([r])
    idx = Sym("idx", (), "usize", bounds(it.lo)[0], bounds(it.hi)[1] - 1, attrs={"name": "idx", "rel": [("lt_arg", 0)], "rel_args": [it.hi]})
    I.run.event("par_call", idx)
    r = I.call_closure(it.f, [idx])
    if is_some(r):
        I.run.event("par_error", r.fields[0])
        return M.VecObj([r.fields[0]])
    # other indices may or may not fail; an all-ok run yields the empty vector
    return M.VecObj([])


# ----------------------------------------------------------------------------------------
class CliCtx:
    def __init__(self, env):
        self.env = env
        self.prog = Program(facts.linked_bin())
        self.ctx = G.Ctx(self.prog)
        self.cli_adt = self.prog.adt_of("cli::Cli")
        self.fields = [f["name"] for f in self.prog.adts[self.cli_adt]["variants"][0]["fields"]]
        self.kind_adt = self.prog.adt_of("mutators::MutatorKind")


MUT_LISTS = ([], ["Bitflip"], ["All"], ["Memoindex", "Typeconfusion"], ["Boundary", "Offbyone", "Stringlen", "Character"],
             ["Character", "Bitflip", "Character"])   # not in declaration order, one kind named twice: order and multiplicity are configuration


def make_cli(cc, mode, mutlist):
    """abstract Cli value; returns (Agg, dict name -> abstract value)"""
    vals = {}
    for n in cc.fields:
        if n == "file":
            v = some(PathObj("FILE")) if mode == "file" else none()
        elif n == "dir":
            v = some(PathObj("DIR")) if mode == "batch" else none()
        elif n == "protocol":
            v = G.LazyOption("protocol", "usize")
            v.inner.lo, v.inner.hi = 0, 5   # value_parser = parse_version (checked separately)
        elif n == "seed":
            v = G.LazyOption("seed", "u64")
        elif n in ("samples", "min_opcodes", "max_opcodes"):
            v = Sym(n, (), "usize", attrs={"name": n})
        elif n == "mutators":
            v = M.VecObj([cc.prog.enum_value(cc.kind_adt, k) for k in mutlist])
        elif n == "mutation_rate":
            v = Sym(n, (), "f64", attrs={"name": n, "f64class": "any"})
        elif n in ("unsafe_mutations", "allow_ext", "allow_buffer"):
            v = G.LazyBool("cli." + n)
        else:
            raise Unanalysable("Cli has an unknown field %s: no forwarding rule" % n)
        vals[n] = v
    return Agg(cc.cli_adt, 0, [vals[n] for n in cc.fields]), vals


def run_main(cc, mode, mutlist):
    prog, ctx = cc.prog, cc.ctx
    mf = H.models_factory(prog, ctx, None)
    k_main = "bin::main"
    k_gen = prog.find("generator::Generator::generate")
    out = []

    def one(run):
        mods = mf()
        cli, vals = make_cli(cc, mode, mutlist)
        snaps = []

        def st_generate(I, k, a):
            g = M.deref(I, a[0])
            snaps.append(g)
            I.run.event("generate_called")
            if I.run.choose(2, "generate ok"):
                b = Bytes([("pay", Payload("bytes", range(256), Sym("pickle_len", (), "usize", 1, 1 << 30), origin="generate()"))])
                snaps[-1] = (g, b)
                return ok(b)
            snaps[-1] = (g, None)
            return err(Opaque("eyre::Report"))
        def st_parse(I, f, a):
            # `Cli::parse()`, or a binary-local wrapper struct that flattens Cli and adds flags of its own (print-only
            # switches): those extra fields are unknown values of their type
            ty = ((f.get("res") or {}).get("impl_self") or (f.get("args") or [""])[0] or "")
            if ty.endswith("cli::Cli") or ty.split("::")[-1] == "Cli" or ty == "":
                return cli
            try:
                adt = prog.adt_of(ty)
            except Unanalysable:
                adt = None
            d = prog.adts.get(adt) if adt is not None else None
            if d is None or len(d["variants"]) != 1:
                raise I.unanalysable("clap::Parser::parse for %s" % ty)
            flds = []
            ncli = 0
            for fd in d["variants"][0]["fields"]:
                if str(fd["ty"]).endswith("cli::Cli") or str(fd["ty"]).split("::")[-1] == "Cli":
                    flds.append(cli)
                    ncli += 1
                else:
                    flds.append(G.generic_unknown(prog, "app." + fd["name"], fd["ty"], []))
            if ncli != 1:
                raise I.unanalysable("clap::Parser::parse for %s: %d fields of type Cli" % (ty, ncli))
            return Agg(adt, 0, flds)
        mods.extra["clap::Parser::parse"] = st_parse
        I = Interp(prog, run, mods, stubs={k_gen: st_generate})
        one.last = (I, vals, snaps, None)
        r = I.call(k_main, [])
        return (I, vals, snaps, r)
    for run, res, pe in explore(one, max_runs=20000):
        I, vals, snaps, r = res if res is not None else one.last
        out.append({"run": run, "end": pe, "vals": vals, "snaps": snaps, "ret": r, "I": I})
    return out


def expected_mutators(cc, I, mutlist, unsafe_val):
    """[(type name)] the library API yields for this list: expand All with all_mutators, then create()"""
    prog = cc.prog
    k_all = prog.find("mutators::MutatorKind::all_mutators")
    k_create = prog.find("mutators::MutatorKind::create")
    kinds = [prog.enum_value(cc.kind_adt, k) for k in mutlist]
    if "All" in mutlist:
        v = I.call(k_all, [unsafe_val])
        kinds = list(M.as_elems(I, v))
    out = []
    for kd in kinds:
        b = I.call(k_create, [Ref(Box_(kd, "kind"), ()), unsafe_val])
        m = b.cbox.v if isinstance(b, M.BoxVal) else b
        out.append(m)
    return out


def field(cc, g, name):
    names = cc.ctx.fields(cc.ctx.gen_adt)
    return g.fields[names.index(name)]


def check_snapshot(cc, res, lf, mode, mutlist, rule="R13.a"):
    """compare the generator handed to generate() with the Cli values on this path"""
    ctx = cc.ctx
    vals = lf["vals"]
    I = lf["I"]
    tag = "%s/%s" % (mode, "+".join(mutlist) or "none")
    loc = "src/main.rs"
    for g, _b in lf["snaps"]:
        res.count("R13.a")
        # version
        st = field(cc, g, "state")
        ver = st.fields[ctx.field_index(ctx.state_adt, "version")]
        vname = ver.vname if isinstance(ver, Agg) else None
        proto, seed = vals["protocol"], vals["seed"]
        if proto.chosen == 1:
            want = None
            lo, hi = bounds(proto.inner)
            if lo == hi:
                want = "V%d" % lo
            if want is None or vname != want:
                res.add(rule, "%s/protocol" % mode, "%s mode: --protocol %s yields Version %s" % (mode, (lo, hi), vname), loc)
        elif seed.chosen == 1:
            # protocol must be seed mod 6: the path atoms fix (seed % 6) to the variant index
            ok6 = False
            for a in lf["run"].atom_log:
                v, outcome, _ = a
                if v.op == "Eq" and outcome and isinstance(v.args[1], int):
                    t = v.args[0]
                    while is_sym(t) and t.op == "cast":
                        t = t.args[0]
                    if is_sym(t) and t.op == "rem" and t.args[0] is seed.inner and t.args[1] == 6 and vname == "V%d" % v.args[1]:
                        ok6 = True
            # the `otherwise` edge of the last comparison is value 5 with all others excluded
            if not ok6:
                t = None
                neq = []
                for a in lf["run"].atom_log:
                    v, outcome, _ = a
                    if v.op == "Eq" and not outcome and isinstance(v.args[1], int):
                        tt = v.args[0]
                        while is_sym(tt) and tt.op == "cast":
                            tt = tt.args[0]
                        if is_sym(tt) and tt.op == "rem" and tt.args[0] is seed.inner and tt.args[1] == 6:
                            neq.append(v.args[1])
                rest = sorted(set(range(6)) - set(neq))
                if len(rest) == 1 and vname == "V%d" % rest[0]:
                    ok6 = True
            if not ok6:
                res.add(rule, "%s/protocol-from-seed" % mode, "%s mode: without --protocol the version must be seed mod 6; found %s on a path with atoms %s" % (
                    mode, vname, [(a[0].show(), a[1]) for a in lf["run"].atom_log][:6]), loc)
        else:
            if not any(e[0] == "os_entropy" for e in lf["run"].events):
                res.add(rule, "%s/protocol-random" % mode, "%s mode: neither --protocol nor --seed given but the version is not drawn at random" % mode, loc)
        # seed
        gs = field(cc, g, "seed")
        if seed.chosen == 1:
            if not (is_some(gs) and gs.fields[0] is seed.inner):
                res.add(rule, "%s/seed" % mode, "%s mode: --seed is not forwarded unchanged (generator.seed = %r)" % (mode, gs), loc)
        elif seed.chosen == 0:
            if isinstance(gs, Agg) and not is_none(gs):
                res.add(rule, "%s/seed-absent" % mode, "%s mode: generator gets seed %r although --seed was not given" % (mode, gs), loc)
        # opcode range
        if field(cc, g, "min_opcodes") is not vals["min_opcodes"]:
            res.add(rule, "%s/min_opcodes" % mode, "%s mode: --min-opcodes is not forwarded (generator.min_opcodes = %r)" % (mode, field(cc, g, "min_opcodes")), loc)
        if field(cc, g, "max_opcodes") is not vals["max_opcodes"]:
            res.add(rule, "%s/max_opcodes" % mode, "%s mode: --max-opcodes is not forwarded (generator.max_opcodes = %r)" % (mode, field(cc, g, "max_opcodes")), loc)
        # flags (read unconditionally by generation code => must be forwarded unconditionally)
        for gname, cname in (("unsafe_mutations", "unsafe_mutations"), ("allow_ext_opcodes", "allow_ext"), ("allow_buffer_opcodes", "allow_buffer")):
            if field(cc, g, gname) is not vals[cname]:
                res.add(rule, "%s/%s" % (mode, cname), "%s mode (mutators %s): --%s is not forwarded (generator.%s = %r)" % (
                    mode, mutlist or "none", cname.replace("_", "-"), gname, field(cc, g, gname)), loc)
        # mutators
        gm = field(cc, g, "mutators")
        exp = expected_mutators(cc, I, mutlist, vals["unsafe_mutations"])
        got = [e.cbox.v if isinstance(e, M.BoxVal) else e for e in (M.as_elems(I, gm) if isinstance(gm, M.VecObj) else [])]
        def sig(m):
            return (m.adt, tuple("cli" if x is vals["unsafe_mutations"] else repr(x) for x in m.fields)) if isinstance(m, Agg) else repr(m)
        if [sig(m) for m in got] != [sig(m) for m in exp]:
            res.add(rule, "%s/mutators/%s" % (mode, "+".join(mutlist) or "none"),
                    "%s mode: --mutators %s builds %r, the library API builds %r" % (mode, mutlist, [sig(m) for m in got], [sig(m) for m in exp]), loc)
        # mutation rate: forwarded (through the clamping builder) whenever it is not inert
        gr = field(cc, g, "mutation_rate")
        if got:
            if not (is_sym(gr) and gr.op == "clamp" and gr.args[0] is vals["mutation_rate"] and gr.args[1] == 0.0 and gr.args[2] == 1.0):
                res.add(rule, "%s/mutation_rate" % mode, "%s mode: --mutation-rate is not forwarded through with_mutation_rate (generator.mutation_rate = %r)" % (mode, gr), loc)


def rate_is_inert_without_mutators(prog):
    """every read of Generator.mutation_rate sits behind the `mutators.is_empty()` early return"""
    bad = []
    cg = CG.CallGraph(prog)
    reach = cg.reachable([prog.find("::generate_internal")])
    for k, b in prog.bodies.items():
        if k not in reach:
            continue
        reads = []
        for i, blk in enumerate(b["blocks"]):
            if blk["cleanup"]:
                continue
            for st in blk["s"]:
                found = []
                CG.walk_json(st, lambda d: found.append(1) if d.get("n") == "mutation_rate" else None)
                if found and st["k"] == "assign" and not any(isinstance(p, dict) and p.get("n") == "mutation_rate" for p in st["pl"]["p"]):
                    reads.append(i)
        if not reads:
            continue
        succ = cfg.successors(b)
        # the is_empty() call on self.mutators and the switch on its result
        guard_true_targets = []
        for i, blk in enumerate(b["blocks"]):
            t = blk["t"]
            if t["k"] == "call" and "path" in t["f"] and (cfg.callee_path(t) or "").endswith("::is_empty") and t["t"] is not None:
                sw = b["blocks"][t["t"]]["t"]
                if sw["k"] == "switch":
                    guard_true_targets.append((t["t"], sw["otherwise"]))
        if not guard_true_targets:
            bad.append(k)
            continue
        swb, empty_target = guard_true_targets[0]
        reach_when_empty = cfg.reachable_from(succ, empty_target)
        if any(r in reach_when_empty for r in reads):
            bad.append(k)
    return bad


def rate_inert_semantically(env, key):
    """second opinion for a body the syntactic rule flags: a value loop `fn(&mut self, value, source)` interpreted with an EMPTY
    mutator list must return its input, decide nothing on mutation_rate and write nothing that mentions it"""
    import rules_mut
    prog, ctx = env.prog, env.ctx
    name = key.split("::")[-1].lstrip("_")
    val0 = rules_mut.input_for(name)
    body = prog.bodies.get(key)
    if val0 is None or body is None or body["arg_count"] != 3:
        return False
    mf = H.models_factory(prog, ctx, None)

    def one(run):
        I = Interp(prog, run, mf())
        ms = G.AbsMutators(ctx)
        ms.empty = True
        h = ctx.make_generator(depth_bound=2, mutators=ms)
        val = rules_mut.input_for(name)
        src = G.AbsSource(prog)
        one.last = (h, val, None)
        r = I.call(key, [h.ref(), val, Ref(Box_(src, "source"), ())])
        return (h, val, r)
    n = 0
    try:
        for run, rr, pe in explore(one, max_runs=50):
            n += 1
            h, val, r = rr if rr is not None else one.last
            if pe is not None:
                return False
            rate = h.special["mutation_rate"]
            if not rules_mut.same_value(r, val):
                return False
            if any(G.contains_obj(a[0], rate) for a in run.atom_log) or any(G.contains_obj(w, rate) for w in h.out.writes):
                return False
    except Unanalysable:
        return False
    return n > 0


def cli_flag_checks(env, res, rule, only=None):
    """forwarding of Cli values in both modes; `only` restricts reporting to some Cli fields (used by C10)"""
    cc = env.memo("clictx", lambda: CliCtx(env))
    n = 0
    tmp = Result(res.pid, res.level)
    for mode in ("file", "batch"):
        for ml in (MUT_LISTS if only is None else MUT_LISTS[:2]):
            lvs = env.memo(("main", mode, tuple(ml)), lambda mode=mode, ml=ml: run_main(cc, mode, ml))
            for lf in lvs:
                n += 1
                if lf["end"] is not None and lf["end"].kind != "panic":
                    continue
                check_snapshot(cc, tmp, lf, mode, ml, rule)
    for f in tmp.findings:
        if only is None or any(("/" + o) in f.key for o in only):
            res.findings.append(f)
    for k, v in tmp.instances.items():
        res.instances[k] = res.instances.get(k, 0) + v
    return n


# ----------------------------------------------------------------------------------------
def rule_C13(env):
    res = Result("C13", "other")
    cc = env.memo("clictx", lambda: CliCtx(env))
    prog = cc.prog
    nleaves = cli_flag_checks(env, res, "R13.a")
    res.floor("R13.a", 20, "generate() call snapshots")
    # inertness of the one conditionally forwarded setting
    def inert(k):
        """a body the syntactic rule flags is fine when it is itself a value loop that is inert with an empty mutator list, or a
        helper (e.g. a generic `first_mutation(closure)`) that is only reachable through such value loops"""
        k = re.sub(r"::\{closure#\d+\}.*$", "", k)
        if rate_inert_semantically(env, k):
            return True
        cg = CG.CallGraph(env.prog)
        seen, work, roots = {k}, [k], []
        while work:
            x = work.pop()
            cs = [re.sub(r"::\{closure#\d+\}.*$", "", c) for c in cg.callers(x)]
            if not cs:
                return False
            for c in cs:
                if c in seen:
                    continue
                seen.add(c)
                b = env.prog.bodies.get(c)
                import rules_mut
                if b is not None and b["arg_count"] == 3 and rules_mut.input_for(c.split("::")[-1].lstrip("_")) is not None:
                    roots.append(c)
                elif len(seen) > 40:
                    return False
                else:
                    work.append(c)
        return bool(roots) and all(rate_inert_semantically(env, r) for r in roots)
    bad = [k for k in rate_is_inert_without_mutators(env.prog) if not inert(k)]
    for k in bad:
        res.add("R13.a", "inert/mutation_rate/%s" % k.split("::")[-1], "%s reads mutation_rate on a path where no mutator is registered: --mutation-rate must then be forwarded unconditionally" % k, env.loc(k))
    samples = []
    # R13.c/d: per mode structure
    for mode in ("file", "batch"):
        for ml in MUT_LISTS[:2]:
            for lf in env.memo(("main", mode, tuple(ml)), lambda: None):
                res.count("R13.d")
                if lf["end"] is not None:
                    if lf["end"].kind == "panic":
                        res.add("R13.d", "%s/panic" % mode, "main() can panic in %s mode: %s" % (mode, lf["end"].info), "src/main.rs")
                    continue
                evs = lf["run"].events
                for bw in getattr(lf["run"], "bufws", []):
                    if bw.pending:
                        res.add("R13.d", "%s/unflushed-buffer" % mode, "%s mode hands the bytes to a BufWriter that is dropped without flush(): a failing write is "
                                "discarded in Drop, the run reports success with an empty or truncated file" % mode, "src/main.rs")
                if any(e[0] == "fs_write_over_old_content" for e in evs):
                    res.add("R13.d", "%s/file-not-truncated" % mode, "%s mode opens the output without truncate(true) (or in append mode): if the file "
                            "exists and is longer, its old tail stays after the pickle - the file is not the bytes the library returned" % mode, "src/main.rs")
                writes = [e for e in evs if e[0] == "fs_write"]
                gens = [s for s in lf["snaps"]]
                ret_ok = getattr(lf["ret"], "vname", None) == "Ok"
                open_failed = any(e[0] == "fs_open_failed" for e in evs)
                if mode == "file":
                    for g, b in gens:
                        if b is not None:
                            if open_failed and not writes:
                                if ret_ok:
                                    res.add("R13.d", "file/error-swallowed", "single-file mode returns Ok although the output file could not be opened", "src/main.rs")
                                continue
                            if len(writes) != 1 or not (isinstance(writes[0][1], PathObj) and writes[0][1].base == "FILE" and not writes[0][1].parts) or writes[0][2] is not b:
                                res.add("R13.d", "file/write", "single-file mode does not write exactly the generated bytes to FILE (%r)" % (writes,), "src/main.rs")
                        elif ret_ok:
                            res.add("R13.d", "file/error-swallowed", "single-file mode returns Ok although generation failed", "src/main.rs")
                    if len(gens) != 1:
                        res.add("R13.c", "file/generate-count", "single-file mode calls generate() %d times" % len(gens), "src/main.rs")
                else:
                    pr = [e for e in evs if e[0] == "par_range"]
                    if not pr and not ret_ok and not gens:
                        continue  # failed before the batch started (directory could not be created)
                    if len(pr) != 1 or pr[0][1] != 0 or pr[0][2] is not lf["vals"]["samples"]:
                        res.add("R13.d", "batch/index-space", "batch mode does not iterate the index space 0..samples (%r)" % (pr,), "src/main.rs")
                        continue
                    calls = [e for e in evs if e[0] == "par_call"]
                    for c in calls:
                        idx = c[1]
                        for g, b in gens:
                            if b is None:
                                continue
                            w = [e for e in writes if e[2] is b]
                            if not w and open_failed:
                                continue      # the sample's file could not be opened: accounted for by the error rules below
                            if len(w) != 1:
                                res.add("R13.d", "batch/write-count", "batch mode writes the bytes of one sample %d times" % len(w), "src/main.rs")
                                continue
                            p = w[0][1]
                            okp = isinstance(p, PathObj) and p.base == "DIR" and len(p.parts) == 1 and isinstance(p.parts[0], Bytes)
                            if okp:
                                parts = M2.merge_lits(list(p.parts[0].parts))
                                okp = len(parts) == 2 and parts[0][0] == "disp" and parts[0][1] is idx and parts[1] == ("lit", b".pkl")
                            if not okp:
                                res.add("R13.d", "batch/file-name", "batch mode writes sample idx to %r, expected DIR/<idx>.pkl" % (p,), "src/main.rs")
                    errs = [e for e in evs if e[0] == "par_error"]
                    failed = any(b is None for g, b in gens) or open_failed or any(lab == "fs::write ok" and c == 0 for lab, c in zip(lf["run"].labels, lf["run"].script))
                    if failed and ret_ok:
                        res.add("R13.d", "batch/error-swallowed", "batch mode exits 0 although a sample could not be generated or written", "src/main.rs")
                    if errs and ret_ok:
                        res.add("R13.d", "batch/errors-ignored", "batch mode returns Ok although errors were collected", "src/main.rs")
                if len(samples) < 4 and gens:
                    samples.append({"mode": mode, "mutators": ml, "generate_calls": len(gens), "writes": [repr(w[1]) for w in writes]})
    res.floor("R13.d", 8, "main() leaves")
    # R13.b: MutatorKind::create <-> clap value names; parse_version range
    nb = mutator_kind_rules(env, res, cc)
    # R13.e python binding
    npy = python_rules(env, res)
    # R13.f/g non-Rust front ends
    nsh = shell_rules(env, res)
    npf = fuzzer_py_rules(env, res)
    res.coverage = {"explanation": "main() linked with the library is interpreted on an abstract Cli (both modes, five mutator lists, every Option/flag/IO outcome); at every generate() "
                    "call the generator's configuration is compared field by field with the Cli values (protocol/seed%6, seed, range, flags, mutator list = library expansion, rate); "
                    "batch mode: index space, file names, error propagation; PyGenerator methods are interpreted on an abstract inner generator; action-run.sh / action.yml / fuzzer.py are parsed.",
                    "evaluations": nleaves + nb + npy + nsh + npf, "distinct_nontrivial": max(2, nleaves), "main_leaves": nleaves, "samples": samples or [{"note": "no sample"}]}
    res.undecided = ["clap's parser, pyo3's glue, bash and rayon are trusted", "byte equality with the library then follows from C07/C08 (same configuration, same entropy)"]
    res.assumptions = ["--protocol values are 0..5 (value_parser parse_version, checked)"]
    return res


def mutator_kind_rules(env, res, cc):
    prog, ctx = cc.prog, cc.ctx
    mf = H.models_factory(prog, ctx, None)
    from interp import Run
    n = 0
    k_create = prog.find("mutators::MutatorKind::create")
    try:
        k_tpv = prog.find("<mutators::MutatorKind as clap::ValueEnum>::to_possible_value")
    except Unanalysable as e:
        res.add("R13.b", "to_possible_value/anchor", str(e))
        return 0
    table = mutsum.MutatorTable(prog)
    names_seen = {}
    for kname in prog.variant_names(cc.kind_adt):
        n += 1
        res.count("R13.b")
        kv = prog.enum_value(cc.kind_adt, kname)
        mods = mf()
        cap = {}
        mods.extra["clap::builder::PossibleValue::new"] = lambda I, f, a, cap=cap: cap.setdefault("name", M2.lit_value(M2.as_str(I, a[0]))) and Opaque("pv") or Opaque("pv")
        mods.extra["clap::builder::PossibleValue::help"] = lambda I, f, a: a[0]
        I = Interp(prog, Run(), mods)
        try:
            I.call(k_tpv, [Ref(Box_(kv, "kind"), ())])
        except (Unanalysable, PathEnd) as e:
            res.add("R13.b", "to_possible_value/%s" % kname, "clap value name of MutatorKind::%s cannot be determined: %s" % (kname, e))
            continue
        cname = cap.get("name", b"").decode()
        if kname == "All":
            continue
        flag = G.LazyBool("unsafe")
        I2 = Interp(prog, Run(), mf())
        try:
            b = I2.call(k_create, [Ref(Box_(kv, "kind"), ()), flag])
        except PathEnd as e:
            res.add("R13.b", "create/%s/panic" % kname, "MutatorKind::%s.create() panics: %s" % (kname, e.info), env.loc(k_create))
            continue
        m = b.cbox.v if isinstance(b, M.BoxVal) else b
        if not isinstance(m, Agg):
            res.add("R13.b", "create/%s/result" % kname, "MutatorKind::%s.create() yields %r" % (kname, m), env.loc(k_create))
            continue
        # name() of the created mutator
        nm_key = None
        for i in table.impls:
            if i["self_ty"] == m.adt:
                nm_key = [it["key"] for it in i["items"] if it["name"] == "name"]
        if not nm_key:
            res.add("R13.b", "create/%s/name" % kname, "%s has no name()" % m.adt)
            continue
        I3 = Interp(prog, Run(), mf())
        r = I3.call(nm_key[0], [Ref(Box_(m, "m"), ())])
        mname = M2.lit_value(M2.as_str(I3, r)).decode()
        if mname != cname:
            res.add("R13.b", "create/%s/kind-mismatch" % kname, "--mutators %s creates the mutator named %r (%s)" % (cname, mname, m.adt), env.loc(k_create))
        for fd, val in zip(prog.adts[m.adt]["variants"][0]["fields"], m.fields):
            if fd["name"] == "unsafe_mode" and val is not flag:
                res.add("R13.b", "create/%s/unsafe_mode" % kname, "MutatorKind::%s.create(unsafe) does not pass the flag on (unsafe_mode = %r)" % (kname, val), env.loc(k_create))
        names_seen[kname] = (cname, m.adt)
    res.floor("R13.b", 8, "MutatorKind variants")
    # parse_version accepts exactly 0..5
    try:
        k_pv = prog.find("cli::parse_version")
        cgb = CG.CallGraph(prog)
        aug = [k for k in prog.bodies if k.endswith("cli::Cli as clap::Args>::augment_args")]
        if not aug or k_pv not in cgb.fnrefs.get(aug[0], set()) and not any(k_pv in cgb.fnrefs.get(c, set()) for c in cgb.reachable(aug)):
            res.add("R13.b", "parse_version/not-wired", "--protocol is not parsed by parse_version")

        def one(run):
            I = Interp(prog, run, mf())
            s = Bytes([("pay", Payload("str", range(32, 127), Sym("l", (), "usize", 0, 20), origin="argv"))], True)
            return I.call(k_pv, [Ref(Box_(s, "s"), ())])
        for run, r, pe in explore(one, max_runs=200):
            n += 1
            if pe is not None:
                res.add("R13.b", "parse_version/ends", "parse_version does not return normally: %s" % pe.info, env.loc(k_pv))
            elif getattr(r, "vname", None) == "Ok":
                lo, hi = bounds(r.fields[0])
                if hi > 5:
                    res.add("R13.b", "parse_version/range", "parse_version accepts values up to %d" % hi, env.loc(k_pv))
    except Unanalysable as e:
        res.add("R13.b", "parse_version/anchor", str(e))
    return n


# ----------------------------------------------------------------------------------------
def python_rules(env, res):
    try:
        py = env.unit("pylib")
    except Exception as e:
        res.add("R13.e", "pylib/anchor", "python-bindings unit missing: %s" % e)
        return 0
    ctx = G.Ctx(py)
    mf = H.models_factory(py, ctx, None)
    n = 0
    try:
        pg_adt = py.adt_of("python::PyGenerator")
    except Unanalysable as e:
        res.add("R13.e", "PyGenerator/anchor", str(e))
        return 0

    def models():
        mods = mf()
        mods.extra["pyo3::types::PyBytes::new"] = lambda I, f, a: Opaque("PyBytes", data=M.deref(I, a[-1]))
        mods.extra["pyo3::PyErr::new"] = lambda I, f, a: Opaque("PyErr")
        mods.extra["<T as std::convert::Into<U>>::into"] = lambda I, f, a: a[0]
        mods.extra["pyo3::Bound::<'py, T>::unbind"] = lambda I, f, a: a[0]
        mods.extra["<pyo3::Bound<'py, T> as std::convert::Into<pyo3::Py<T>>>::into"] = lambda I, f, a: a[0]
        mods.extra["pyo3::instance::<impl std::convert::From<pyo3::Bound<'_, T>> for pyo3::Py<T>>::from"] = lambda I, f, a: a[0]
        return mods

    def method(name):
        return py.find("python::PyGenerator::" + name)
    # set_opcode_range: every configuration field other than min/max keeps its value
    try:
        k = method("set_opcode_range")

        def one(run):
            I = Interp(py, run, models())
            h = ctx.make_generator(depth_bound=2)
            me = Agg(pg_adt, 0, [h.g])
            a, b = Sym("min", (), "usize"), Sym("max", (), "usize")
            one.last = (h, me, a, b)
            I.call(k, [Ref(Box_(me, "self"), ()), a, b])
            return (h, me, a, b)
        for run, r, pe in explore(one, max_runs=50):
            n += 1
            res.count("R13.e")
            h, me, a, b = r if r is not None else one.last
            if pe is not None:
                res.add("R13.e", "set_opcode_range/ends", "set_opcode_range does not return normally: %s" % pe.info, env.loc(k, py))
                continue
            g = me.fields[0]
            names = ctx.fields(ctx.gen_adt)
            for i, nme in enumerate(names):
                v = g.fields[i]
                if nme == "min_opcodes":
                    if v is not a:
                        res.add("R13.e", "set_opcode_range/min", "set_opcode_range does not set min_opcodes", env.loc(k, py))
                elif nme == "max_opcodes":
                    if v is not b:
                        res.add("R13.e", "set_opcode_range/max", "set_opcode_range does not set max_opcodes", env.loc(k, py))
                elif nme == "state":
                    ver = v.fields[ctx.field_index(ctx.state_adt, "version")] if isinstance(v, Agg) else None
                    if ver is not h.version:
                        res.add("R13.e", "set_opcode_range/resets-state", "set_opcode_range replaces the generator state (protocol version object changed)", env.loc(k, py))
                elif nme in ("output",):
                    continue
                elif v is not h.special[nme]:
                    res.add("R13.e", "set_opcode_range/drops-%s" % nme, "set_opcode_range changes `%s` (was %r, now %r): other settings such as the seed must stay in force" % (
                        nme, h.special[nme], v), env.loc(k, py))
    except Unanalysable as e:
        res.add("R13.e", "set_opcode_range/unanalysable", "set_opcode_range cannot be analysed: %s" % e)
    # constructor forwards protocol and seed
    try:
        k = method("new")

        def one2(run):
            I = Interp(py, run, models())
            p = Sym("protocol", (), "usize")
            sd = G.LazyOption("seed", "u64")
            one2.last = (p, sd, None)
            r = I.call(k, [p, sd])
            return (p, sd, r)
        for run, r, pe in explore(one2, max_runs=200):
            n += 1
            res.count("R13.e")
            p, sd, rv = r if r is not None else one2.last
            if pe is not None:
                res.add("R13.e", "new/ends", "PyGenerator::new does not return normally: %s" % pe.info, env.loc(k, py))
                continue
            if getattr(rv, "vname", None) != "Ok":
                continue
            g = rv.fields[0].fields[0]
            names = ctx.fields(ctx.gen_adt)
            st = g.fields[names.index("state")]
            ver = st.fields[ctx.field_index(ctx.state_adt, "version")]
            lo, hi = bounds(p)
            if not (lo == hi and ver.vname == "V%d" % lo):
                res.add("R13.e", "new/protocol", "Generator(protocol=p) builds version %s for p in [%s,%s]" % (ver.vname, lo, hi), env.loc(k, py))
            gs = g.fields[names.index("seed")]
            if sd.chosen == 1 and not (is_some(gs) and gs.fields[0] is sd.inner):
                res.add("R13.e", "new/seed", "Generator(seed=s) does not forward the seed (seed = %r)" % (gs,), env.loc(k, py))
            if sd.chosen == 0 and not is_none(gs):
                res.add("R13.e", "new/seed-absent", "Generator() without seed gets %r" % (gs,), env.loc(k, py))
    except Unanalysable as e:
        res.add("R13.e", "new/unanalysable", "PyGenerator::new cannot be analysed: %s" % e)
    # generate / generate_from_bytes / reset forward 1:1 (call graph)
    pcg = CG.CallGraph(py)
    for name, target in (("generate", "generate"), ("generate_from_bytes", "generate_from_arbitrary"), ("reset", "reset")):
        try:
            k = method(name)
        except Unanalysable as e:
            res.add("R13.e", "%s/anchor" % name, str(e))
            continue
        n += 1
        res.count("R13.e")
        cal = [c[0] for c in pcg.calls_of(k, external=True) if c[0] and "generator::Generator::" in c[0]]
        if [c.split("::")[-1] for c in cal] != [target]:
            res.add("R13.e", "%s/forwarding" % name, "PyGenerator::%s calls %r on the inner generator, expected exactly Generator::%s" % (name, cal, target), env.loc(k, py))
    res.floor("R13.e", 5, "PyGenerator method checks")
    return n


# ----------------------------------------------------------------------------------------
def shell_words(line):
    """split a shell line into words, keeping quoted strings together"""
    out, cur, q = [], "", None
    i = 0
    while i < len(line):
        c = line[i]
        if q:
            if c == q:
                q = None
            else:
                cur += c
        elif c in "\"'":
            q = c
        elif c.isspace():
            if cur:
                out.append(cur)
                cur = ""
        elif c == "#" and not cur:
            break
        else:
            cur += c
        i += 1
    if cur:
        out.append(cur)
    return out


EXPECTED_SH = {
    # INPUT variable -> (flag, kind)
    "INPUT_OUTPUT_DIR": ("--dir", "value"), "INPUT_SAMPLES": ("--samples", "value"), "INPUT_PROTOCOL": ("--protocol", "value"),
    "INPUT_SEED": ("--seed", "value"), "INPUT_MIN_OPCODES": ("--min-opcodes", "value"), "INPUT_MAX_OPCODES": ("--max-opcodes", "value"),
    "INPUT_MUTATORS": ("--mutators", "list"), "INPUT_MUTATION_RATE": ("--mutation-rate", "value"),
    "INPUT_UNSAFE_MUTATIONS": ("--unsafe-mutations", "bool"), "INPUT_ALLOW_EXT": ("--allow-ext", "bool"), "INPUT_ALLOW_BUFFER": ("--allow-buffer", "bool"),
    "INPUT_OUTPUT_FILE": (None, "positional"),
}


def clap_table(prog):
    """The clap argument table, read from the MIR of the derive-generated `<Cli as clap::Args>::augment_args`: one row per
    `Arg::new(..) ... Command::arg(..)` builder chain (id, long, short, action, num_args, positional)."""
    key = next((k for k in prog.bodies if k.endswith("<cli::Cli as clap::Args>::augment_args")), None)
    if key is None:
        raise KeyError("<cli::Cli as clap::Args>::augment_args not found")
    rows, cur = [], None
    for bb in prog.bodies[key]["blocks"]:
        t = bb.get("t")
        if not t or t["k"] != "call":
            continue
        path = t["f"].get("path", "")
        nm = path.split("::")[-1]
        if path == "clap::Arg::new":
            cs = [a["c"]["v"].get("str") for a in t["args"] if "c" in a]
            cur = {"id": cs[0] if cs else None, "long": None, "short": None, "action": None, "num_args": None}
        elif cur is not None and path.startswith("clap::Arg::"):
            cs = [a["c"]["v"] for a in t["args"] if "c" in a]
            if nm == "long":
                cur["long"] = cs[0].get("str") if cs else "?"
            elif nm == "short":
                cur["short"] = chr(cs[0]["char"]) if cs and "char" in cs[0] else "?"
            elif nm == "action":
                aggs = [st["rv"]["ak"].get("vn") for st in bb["s"] if st["k"] == "assign" and st["rv"]["k"] == "agg" and st["rv"]["ak"].get("t") == "adt"
                        and "ArgAction" in st["rv"]["ak"].get("adt", "")]
                cur["action"] = aggs[-1] if aggs else "?"
            elif nm == "num_args":
                cur["num_args"] = (t["f"].get("args") or ["?"])[0]
            elif nm in ("allow_hyphen_values", "allow_negative_numbers", "value_delimiter", "value_terminator", "trailing_var_arg", "last", "raw", "index"):
                cur.setdefault("special", []).append(nm)
        elif cur is not None and path == "clap::Command::arg":
            cur["positional"] = cur["long"] is None and cur["short"] is None
            rows.append(cur)
            cur = None
    return rows


def clap_parse(table, argv):
    """abstract model of clap's argv parsing for the flat option table: -> (values: id -> list | True, errors)"""
    by_long = {r["long"]: r for r in table if r["long"]}
    by_short = {r["short"]: r for r in table if r["short"]}
    positionals = [r for r in table if r["positional"]]
    vals, errors = {}, []
    pending = None          # (row, remaining minimum, variadic)
    escaped = False
    npos = 0

    def first_lit(w):
        return w[0] if w and isinstance(w[0], str) else None
    for w in argv:
        if any(isinstance(a, SH.Splice) for a in w):
            errors.append(("splice", "an unquoted opaque expansion is spliced into the argument list"))
            continue
        fl = first_lit(w)
        lit = SH.s_lit(w)
        optlike = (fl is not None and fl.startswith("-") and fl != "-") and not escaped
        if pending is not None:
            row, need, variadic = pending
            if not optlike and not (lit == "--" and not escaped):
                vals.setdefault(row["id"], []).append(w)
                need = max(0, need - 1)
                pending = (row, need, variadic) if (variadic or need > 0) else None
                continue
            if need > 0:
                errors.append(("missing-value/%s" % row["id"], "option --%s is followed by %r instead of its value" % (row["long"], w)))
            pending = None
        if lit == "--" and not escaped:
            escaped = True
            continue
        if optlike:
            if fl.startswith("--"):
                name, eq, v = (lit or fl).partition("=") if lit is not None else (fl, "", "")
                if lit is None and "=" not in fl:
                    errors.append(("opaque-option", "option word %r is not literal" % (w,)))
                    continue
                row = by_long.get(name[2:])
                if row is None:
                    errors.append(("unknown-option/%s" % name, "the CLI has no option %s" % name))
                    continue
                inline = None
                if "=" in fl:
                    inline = SH.s_norm((fl.partition("=")[2],) + tuple(w[1:]))
            else:
                if lit is None or len(lit) != 2:
                    errors.append(("short-cluster", "short option word %r is outside the model" % (w,)))
                    continue
                row = by_short.get(lit[1])
                inline = None
                if row is None:
                    errors.append(("unknown-option/%s" % lit, "the CLI has no option %s" % lit))
                    continue
            if row["action"] in ("SetTrue", "SetFalse", "Count", "Help", "Version"):
                if inline is not None:
                    errors.append(("flag-value/%s" % row["id"], "flag --%s is given a value" % row["long"]))
                if row["action"] == "SetTrue" and vals.get(row["id"]) is True:
                    errors.append(("repeated/%s" % row["id"], "flag --%s is given twice (clap rejects it)" % row["long"]))
                vals[row["id"]] = True
                continue
            if row["action"] == "Set" and row["id"] in vals:
                errors.append(("repeated/%s" % row["id"], "option --%s is given twice (clap rejects a repeated single-value option)" % row["long"]))
            variadic = bool(row["num_args"]) and ("RangeFrom" in row["num_args"] or "RangeFull" in row["num_args"])
            if row["num_args"] and not variadic:
                errors.append(("num-args/%s" % row["id"], "num_args(%s) of --%s is outside the model" % (row["num_args"], row["long"])))
            if inline is not None:
                vals.setdefault(row["id"], []).append(inline)
                pending = (row, 0, True) if variadic else None
            else:
                vals.setdefault(row["id"], [])
                pending = (row, 1, variadic)
            continue
        # positional
        if npos >= len(positionals):
            errors.append(("unexpected-positional", "unexpected positional argument %r" % (w,)))
            continue
        vals.setdefault(positionals[npos]["id"], []).append(w)
        npos += 1
    if pending is not None and pending[1] > 0:
        errors.append(("missing-value/%s" % pending[0]["id"], "option --%s has no value" % pending[0]["long"]))
    return vals, errors


MUST_TRUE, MUST_FALSE = {"true"}, {"false"}


def shell_rules(env, res):
    """R13.g: the wrapper is interpreted on abstract inputs (shellai); the argv of every path is parsed with a model of clap over the
    argument table read from the derive output; the resulting option values must be the INPUT_* values."""
    n = 0
    path = os.path.join(env.repo, "scripts", "action-run.sh")
    loc = "scripts/action-run.sh"
    try:
        text = open(path).read()
    except OSError as e:
        res.add("R13.g", "action-run.sh/missing", "scripts/action-run.sh not readable: %s" % e)
        return 0
    try:
        table = clap_table(env.prog)
    except (KeyError, IndexError, TypeError) as e:
        res.add("R13.g", "cli/arg-table", "cannot read the clap argument table from <Cli as clap::Args>::augment_args: %r" % (e,), "src/cli.rs")
        return 0
    by_long = {("--" + r["long"]): r for r in table if r["long"]}
    positional = [r for r in table if r["positional"]]
    for r in table:
        n += 1
        res.count("R13.g.table")
        if r.get("special"):
            res.add("R13.g", "cli/%s/parser-setting" % r["id"], "argument `%s` uses clap settings outside the parse model: %s" % (r["id"], r["special"]), "src/cli.rs")
        if r["action"] not in ("Set", "Append", "SetTrue"):
            res.add("R13.g", "cli/%s/action" % r["id"], "argument `%s` has action %s, outside the parse model" % (r["id"], r["action"]), "src/cli.rs")
    res.floor("R13.g.table", 12, "clap arguments")
    cli_fields = [f["name"] for f in env.prog.adts[env.prog.adt_of("cli::Cli")]["variants"][0]["fields"]]
    if sorted(cli_fields) != sorted(r["id"] for r in table):
        res.add("R13.g", "cli/arg-table/fields", "clap argument ids %r differ from the Cli fields %r" % (sorted(r["id"] for r in table), sorted(cli_fields)), "src/cli.rs")
    # which Cli argument each input stands for
    spec = {}
    for var, (flag, kind) in EXPECTED_SH.items():
        if kind == "positional":
            if len(positional) != 1:
                res.add("R13.g", "cli/positional", "the CLI has %d positional arguments, expected exactly FILE" % len(positional), "src/cli.rs")
                continue
            spec[var] = (positional[0], kind)
        else:
            row = by_long.get(flag)
            if row is None:
                res.add("R13.g", "cli/%s" % flag, "the CLI has no flag %s (arguments: %s)" % (flag, sorted(by_long)), "src/cli.rs")
                continue
            want = {"value": ("Set",), "bool": ("SetTrue",), "list": ("Append",)}[kind]
            if row["action"] not in want:
                res.add("R13.g", "cli/%s/kind" % flag, "%s has action %s, the wrapper's input is a %s" % (flag, row["action"], kind), "src/cli.rs")
            spec[var] = (row, kind)
    cache_key = ("shellai", text)
    paths, problems = env.memo(cache_key, lambda: SH.analyse(text, inputs=set(EXPECTED_SH) | {"INPUT_ARGS"}))
    for k, msg in problems:
        res.add("R13.g", "action-run.sh/%s" % k, "action-run.sh cannot be analysed: %s" % msg, loc)
    if problems:
        return n
    seen = set()
    paths = sorted(paths, key=lambda p: sum(1 for v in p["empty"].values() if not v))

    def add(key, msg, p):
        if key in seen:
            return
        seen.add(key)
        setv = sorted(v for v, e in p["empty"].items() if not e)
        cond = "inputs set: %s%s" % (", ".join(setv) or "none", "".join("; %s in %s" % (o, sorted(s)) for o, s in p["in_set"].items()))
        argvs = " | ".join(" ".join("".join(a if isinstance(a, str) else repr(a) for a in w) or "''" for w in inv[0]) for inv in p["invocations"])
        res.add("R13.g", key, "%s [%s; argv: %s]" % (msg, cond, argvs or "-"), loc, {"inputs_set": setv, "argv": argvs})
    used_inputs = set()
    for p in paths:
        n += 1
        res.count("R13.g")
        used_inputs |= set(p["empty"])
        for k, msg in p["problems"]:
            add("action-run.sh/%s" % re.sub(r"[^A-Za-z0-9_./-]+", "_", k)[:70], msg, p)
        if any(k in ("unsupported", "control") for k, _ in p["problems"]):
            continue
        nonempty = {v for v, e in p["empty"].items() if not e}
        inv = p["invocations"]
        if "INPUT_ARGS" in nonempty:
            ok_pass = len(inv) == 1 and len(inv[0][0]) == 1 and inv[0][0][0] == (SH.Splice("INPUT_ARGS"),)
            if not ok_pass:
                add("action-run.sh/INPUT_ARGS/passthrough", "with INPUT_ARGS set the wrapper must run `pickle-fuzzer ${INPUT_ARGS}` and nothing else", p)
            elif inv[0][1] == "fail" and p["rc"] == 0:
                add("action-run.sh/INPUT_ARGS/status", "a failing pickle-fuzzer run is reported as success", p)
            continue

        def truthy(var):
            """(may be 'true', may be 'false'/empty) on this path"""
            if var not in nonempty:
                return (False, True)
            ins, nin = p["in_set"].get(var), p["not_in"].get(var, set())
            if ins is not None:
                return (bool(ins & MUST_TRUE), bool(ins & MUST_FALSE))
            return (not (MUST_TRUE <= nin), not (MUST_FALSE <= nin))
        wants_any = any(v in nonempty for v in EXPECTED_SH)
        both = "INPUT_OUTPUT_DIR" in nonempty and "INPUT_OUTPUT_FILE" in nonempty
        neither = "INPUT_OUTPUT_DIR" not in nonempty and "INPUT_OUTPUT_FILE" not in nonempty
        if both:
            if inv and all(s == "ok" for _, s in inv) and False:
                pass
            continue        # rejected by the wrapper or by clap (conflicts_with); no bytes are produced either way
        if not inv:
            if neither:
                continue    # nothing to write to: the CLI would reject the call as well (FILE or --dir is required)
            add("action-run.sh/no-invocation", "the wrapper ends (status %d) without running pickle-fuzzer although an output was requested" % p["rc"], p)
            continue
        if len(inv) != 1:
            add("action-run.sh/invocations", "the wrapper runs pickle-fuzzer %d times" % len(inv), p)
            continue
        argv, status = inv[0]
        if status == "fail" and p["rc"] == 0:
            add("action-run.sh/status", "a failing pickle-fuzzer run is reported as success (exit 0)", p)
        if status == "ok" and p["rc"] != 0:
            add("action-run.sh/status-ok", "the wrapper exits %d although pickle-fuzzer succeeded" % p["rc"], p)
        if neither:
            continue
        vals, errors = clap_parse(table, argv)
        for k, msg in errors:
            add("action-run.sh/argv/%s" % k, "clap rejects the argument list the wrapper builds: %s" % msg, p)
        if errors:
            continue
        for var, (row, kind) in spec.items():
            got = vals.get(row["id"])
            if kind in ("value", "positional"):
                want = [(SH.Tok(var),)] if var in nonempty else None
                if got != want:
                    what = "consumed by another option or dropped" if got is None else "passed as %r" % (got,)
                    add("action-run.sh/argv/%s/%s" % (row["id"], "missing" if got is None else "value"),
                        "%s must reach the CLI as %s; it is %s" % (var, ("--" + row["long"] + " VALUE") if row["long"] else "the positional FILE", what) if want else
                        "%s is empty but the CLI receives %s %r" % (var, row["id"], got), p)
            elif kind == "bool":
                mt, mf = truthy(var)
                if got is True and mf:
                    add("action-run.sh/argv/%s/enabled-by-false" % row["id"], "--%s is passed although %s may be 'false' or empty" % (row["long"], var), p)
                if got is not True and mt:
                    add("action-run.sh/argv/%s/true-ignored" % row["id"], "%s = 'true' does not add --%s" % (var, row["long"]), p)
            elif kind == "list":
                so = p["split_of"].get(var)
                want = [e for e in so[1] if len(e)] if (so and var in nonempty) else None
                if var in nonempty and so is None:
                    want = [(SH.Tok(var),)]
                if so is not None and set(so[0]) - set(", \t\n") :
                    add("action-run.sh/%s/separators" % var, "%s is split on %r, expected commas and blanks" % (var, so[0]), p)
                if (got or None) != (want or None):
                    add("action-run.sh/argv/%s/%s" % (row["id"], "missing" if not got else "value"),
                        "%s must reach the CLI as one --%s value per entry, in order (%r); the CLI receives %r" % (var, row["long"], want, got), p)
        for rid, got in vals.items():
            if not any(row["id"] == rid for row, _ in spec.values()):
                add("action-run.sh/argv/%s/unrequested" % rid, "the wrapper passes `%s`, which no input asks for" % rid, p)
    res.floor("R13.g", 2000, "wrapper paths")
    for var in EXPECTED_SH:
        if var not in used_inputs:
            res.add("R13.g", "action-run.sh/%s/missing" % var, "action-run.sh never reads %s" % var, loc)
    for var in sorted(v for v in re.findall(r"INPUT_[A-Z_]+", text) if v not in EXPECTED_SH and v != "INPUT_ARGS"):
        res.add("R13.g", "action-run.sh/%s/unknown" % var, "action-run.sh consumes %s, which has no CLI counterpart in the rule table" % var, loc)
    # action.yml passes every input in the run step
    try:
        yml = open(os.path.join(env.repo, "action.yml")).read()
        steps = yml.split("\n    - ")
        run_steps = [s for s in steps if "action-run.sh" in s]
        if len(run_steps) != 1:
            res.add("R13.g", "action.yml/run-step", "action.yml has %d steps running action-run.sh" % len(run_steps), "action.yml")
        else:
            for var in EXPECTED_SH:
                n += 1
                inp = var[len("INPUT_"):].lower()
                if not re.search(r"%s:\s*\$\{\{\s*inputs\.%s\s*\}\}" % (var, inp), run_steps[0]):
                    res.add("R13.g", "action.yml/%s" % var, "action.yml does not pass inputs.%s as %s to action-run.sh" % (inp, var), "action.yml")
                if not re.search(r"\n  %s:\n" % inp, yml):
                    res.add("R13.g", "action.yml/input/%s" % inp, "action.yml declares no input `%s`" % inp, "action.yml")
    except OSError as e:
        res.add("R13.g", "action.yml/missing", "action.yml not readable: %s" % e)
    res.floor("R13.g", 12, "INPUT_* variables")
    return n


class PyUnsupported(Exception):
    pass


def py_paths(meths, fn, max_paths=256):
    """symbolic paths of a method of PickleMutator: [{ret, native_calls, bad_args, handled, reconfigured}]"""
    results = []

    class Ret(Exception):
        def __init__(self, v):
            self.v = v

    class Raised(Exception):
        pass

    def explore(script):
        st = {"pos": 0, "script": list(script), "trace": [], "native": 0, "bad": False, "handled": False, "reconf": False}

        def choose(n):
            if st["pos"] < len(st["script"]):
                c = st["script"][st["pos"]]
            else:
                c = 0
                st["script"].append(0)
            st["pos"] += 1
            st["trace"].append(n)
            return c

        def ev(e, env):
            if isinstance(e, ast.Constant):
                return ("const", e.value)
            if isinstance(e, ast.Name):
                if e.id in env:
                    return env[e.id]
                return ("global", e.id)
            if isinstance(e, ast.Attribute):
                base = ev(e.value, env)
                return ("attr", base, e.attr)
            if isinstance(e, ast.Subscript):
                v = ev(e.value, env)
                sl = e.slice
                if isinstance(sl, ast.Slice) and sl.lower is None and sl.step is None and sl.upper is not None:
                    up = ev(sl.upper, env)
                    return ("prefix", v, up[1] if up[0] == "param" else up)
                return ("subscript", v)
            if isinstance(e, ast.Compare) or isinstance(e, ast.BoolOp) or isinstance(e, ast.UnaryOp):
                for sub in ast.iter_child_nodes(e):
                    if isinstance(sub, ast.expr):
                        ev(sub, env)
                return ("unknown-bool",)
            if isinstance(e, ast.BinOp):
                return ("binop", type(e.op).__name__, ev(e.left, env), ev(e.right, env))
            if isinstance(e, ast.IfExp):
                ev(e.test, env)
                return ev(e.body, env) if choose(2) == 0 else ev(e.orelse, env)
            if isinstance(e, ast.JoinedStr):
                return ("str",)
            if isinstance(e, ast.Call):
                f = e.func
                args = [ev(a, env) for a in e.args]
                if isinstance(f, ast.Attribute):
                    tgt = ev(f.value, env)
                    if tgt == ("attr", ("param", "self"), "generator"):
                        if f.attr == "generate_from_bytes":
                            st["native"] += 1
                            if args != [("param", "data")] or e.keywords:
                                st["bad"] = True
                            if choose(2) == 1:
                                raise Raised()
                            return ("native",)
                        if f.attr in ("reset", "set_opcode_range", "generate"):
                            st["reconf"] = True
                            return ("unknown",)
                        raise PyUnsupported("call self.generator.%s" % f.attr)
                    if tgt in (("param", "self"), ("global", "PickleMutator")) and f.attr in meths:
                        return call(meths[f.attr], args, e.keywords, env, bound=(tgt == ("param", "self")))
                    return ("unknown",)
                if isinstance(f, ast.Name) and f.id in ("len", "min", "max", "bytes", "int", "isinstance", "print"):
                    return ("unknown",)
                raise PyUnsupported("call %s" % ast.unparse(f))
            raise PyUnsupported(type(e).__name__)

        def call(m, args, kws, env, bound=True):
            params = [a.arg for a in m.args.args]
            static = any(isinstance(d, ast.Name) and d.id == "staticmethod" for d in m.decorator_list)
            loc = {}
            if not static:
                loc[params[0]] = ("param", "self")
                params = params[1:]
            for p_, a_ in zip(params, args):
                loc[p_] = a_
            for kw in kws:
                loc[kw.arg] = ev(kw.value, env)
            for p_ in params:
                loc.setdefault(p_, ("default", p_))
            try:
                run(m.body, loc)
            except Ret as r:
                return r.v
            return ("const", None)

        def run(body, env):
            for stt in body:
                if isinstance(stt, ast.Expr):
                    if not isinstance(stt.value, ast.Constant):
                        ev(stt.value, env)
                elif isinstance(stt, ast.Assign) and len(stt.targets) == 1 and isinstance(stt.targets[0], ast.Name):
                    env[stt.targets[0].id] = ev(stt.value, env)
                elif isinstance(stt, ast.AnnAssign) and isinstance(stt.target, ast.Name) and stt.value is not None:
                    env[stt.target.id] = ev(stt.value, env)
                elif isinstance(stt, ast.Return):
                    raise Ret(ev(stt.value, env) if stt.value is not None else ("const", None))
                elif isinstance(stt, ast.If):
                    ev(stt.test, env)
                    run(stt.body if choose(2) == 0 else stt.orelse, env)
                elif isinstance(stt, ast.Try):
                    try:
                        run(stt.body, env)
                    except Raised:
                        if not stt.handlers:
                            raise
                        st["handled"] = True
                        run(stt.handlers[0].body, env)
                    run(stt.finalbody, env)
                elif isinstance(stt, (ast.Pass, ast.Delete)):
                    pass
                elif isinstance(stt, ast.Raise):
                    raise Raised()
                else:
                    raise PyUnsupported(type(stt).__name__)

        params = [a.arg for a in fn.args.args]
        env = {params[0]: ("param", "self")}
        for p_ in params[1:]:
            env[p_] = ("param", p_)
        out = {"ret": None, "handled": False}
        try:
            run(fn.body, env)
            ret = ("const", None)
        except Ret as r:
            ret = r.v
        except Raised:
            ret = ("raised",)
            st["handled"] = True
        if ret and ret[0] == "prefix" and ret[2] != "max_size":
            ret = ("prefix", ret[1], ret[2])
        results.append({"ret": ret, "native_calls": st["native"], "bad_args": st["bad"], "handled": st["handled"], "reconfigured": st["reconf"]})
        return st

    stack = [[]]
    while stack:
        sc = stack.pop()
        stt = explore(sc)
        for i in range(len(sc), len(stt["trace"])):
            for alt in range(1, stt["trace"][i]):
                stack.append(stt["script"][:i] + [alt])
        if len(results) > max_paths:
            raise PyUnsupported("too many paths")
    return results


def fuzzer_py_rules(env, res):
    path = os.path.join(env.repo, "python", "pickle_fuzzer", "fuzzer.py")
    n = 0
    try:
        tree = ast.parse(open(path).read())
    except (OSError, SyntaxError) as e:
        res.add("R13.f", "fuzzer.py/unreadable", "fuzzer.py cannot be parsed: %s" % e)
        return 0
    cls = [x for x in tree.body if isinstance(x, ast.ClassDef) and x.name == "PickleMutator"]
    if not cls:
        res.add("R13.f", "fuzzer.py/PickleMutator", "class PickleMutator not found", "python/pickle_fuzzer/fuzzer.py")
        return 0
    meths = {m.name: m for m in cls[0].body if isinstance(m, ast.FunctionDef)}
    # __init__ passes protocol and seed through to Generator
    init = meths.get("__init__")
    n += 1
    res.count("R13.f")
    okinit = False
    if init:
        for node in ast.walk(init):
            if isinstance(node, ast.Call) and getattr(node.func, "id", None) == "Generator":
                kw = {k.arg: getattr(k.value, "id", None) for k in node.keywords}
                if kw.get("protocol") == "protocol" and kw.get("seed") == "seed":
                    okinit = True
    if not okinit:
        res.add("R13.f", "fuzzer.py/__init__", "PickleMutator.__init__ does not construct Generator(protocol=protocol, seed=seed)", "python/pickle_fuzzer/fuzzer.py")
    mut = meths.get("mutate")
    n += 1
    res.count("R13.f")
    if not mut:
        res.add("R13.f", "fuzzer.py/mutate", "PickleMutator.mutate not found", "python/pickle_fuzzer/fuzzer.py")
        return n
    # mutate(data, max_size, ...) is evaluated symbolically over the small Python subset it is written in (helper methods of the
    # class are inlined; unknown conditions fork): on every path that ends without an exception handler having run, the value
    # returned is the result R of exactly one self.generator.generate_from_bytes(data) call, or its prefix R[:max_size]
    try:
        outcomes = py_paths(meths, mut)
    except PyUnsupported as e:
        res.add("R13.f", "fuzzer.py/mutate/unsupported", "mutate() uses a construct outside the analysed Python subset: %s" % e, "python/pickle_fuzzer/fuzzer.py")
        outcomes = []
    for o in outcomes:
        n += 1
        res.count("R13.f.paths")
        if o["handled"]:
            continue          # the fallback after a generator error is not the library's pickle anyway
        if o["native_calls"] != 1 or o["bad_args"]:
            res.add("R13.f", "fuzzer.py/mutate/call", "mutate() must call self.generator.generate_from_bytes(data) exactly once on every successful path "
                    "(found %d calls%s)" % (o["native_calls"], ", with other arguments" if o["bad_args"] else ""), "python/pickle_fuzzer/fuzzer.py")
        if o["ret"] not in (("native",), ("prefix", ("native",), "max_size")):
            res.add("R13.f", "fuzzer.py/mutate/return", "mutate() must return the native result or its [:max_size] prefix; a successful path returns %r" % (o["ret"],),
                    "python/pickle_fuzzer/fuzzer.py")
        if o["reconfigured"]:
            res.add("R13.f", "fuzzer.py/mutate/extra-call", "mutate() reconfigures or resets the generator", "python/pickle_fuzzer/fuzzer.py")
    # __init__.py re-exports the native Generator
    try:
        init_src = open(os.path.join(env.repo, "python", "pickle_fuzzer", "__init__.py")).read()
        n += 1
        it = ast.parse(init_src)
        reexp = any(isinstance(x, ast.ImportFrom) and (x.module or "").endswith("_native") and any(al.name == "Generator" and al.asname in (None, "Generator") for al in x.names)
                    for x in it.body)
        if not reexp:
            res.add("R13.f", "__init__.py/Generator", "python package does not re-export the native Generator", "python/pickle_fuzzer/__init__.py")
    except OSError:
        res.add("R13.f", "__init__.py/missing", "python/pickle_fuzzer/__init__.py missing")
    return n
