"""C13: front ends equal the library (placeholder, filled in below)."""
from framework import Result


def cli_flag_checks(env, res, rule, only=None):
    return 0
