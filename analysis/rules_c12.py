"""C12: no dead opcode - table completeness and abstract reachability witnesses."""
import rules_pvm as PV
import gen_analysis as GA
import bfs
from framework import Result


def rule_C12(env):
    res = Result("C12", "other")
    spec = env.spec
    t2 = PV.table_T2(env)
    prog = env.prog
    loc_tab = None
    try:
        loc_tab = env.loc(prog.find("opcodes::PICKLE_OPCODES", kind="static"))
    except Exception:
        pass
    n = 0
    # (a) completeness of each row
    variants = {PV.R.norm(v): v for v in prog.variant_names(env.ctx.opcode_adt)}
    for P in range(6):
        row = set(t2.get(P, []))
        for o in spec.table:
            if o["proto"] <= P:
                n += 1
                res.count("C12.a")
                v = variants.get(PV.R.norm(o["name"]))
                if v is None:
                    res.add("C12.a", "OpcodeKind/%s" % o["name"], "standard opcode %s has no OpcodeKind variant" % o["name"], loc_tab)
                elif v not in row:
                    res.add("C12.a", "PICKLE_OPCODES/%d/%s" % (P, o["name"]),
                            "%s (introduced in protocol %d) is missing from the protocol-%d row: it can never be generated for that protocol" % (o["name"], o["proto"], P), loc_tab)
    res.floor("C12.a", 22 + 41 + 53 + 55 + 65 + 68, "(protocol, opcode) pairs")
    # (b) reachability witnesses from the breadth-first pass (opt-in flags on)
    wit, st = bfs.witness_search(env, max_steps=7 if env.tier == "quick" else 9, max_len=4 if env.tier == "quick" else 5)
    cov = {"states": st["states"], "transitions": st["transitions"]}
    tr = PV.get_trans(env)
    samples = []
    special = {"Stop", "Frame", "Proto"}
    missing = []
    for P in sorted(t2):
        for k in t2[P]:
            if k in special:
                continue
            res.count("C12.b")
            if isinstance(tr.get(k), Exception):
                res.add("engine", "unanalysable/%s" % k, "arm %s cannot be analysed: %s" % (k, tr[k]), PV.op_loc(env, "::can_emit"))
                continue
            w = wit.get((P, k))
            if w is None:
                # is the guard satisfiable at all (any leaf true for this protocol)?
                any_true = any(lf.can_emit and P in PV.applicable_protocols(lf, env) for lf in tr[k])
                missing.append((P, k, any_true))
            elif len(samples) < 8 and len(w) >= 3:
                samples.append({"protocol": P, "opcode": k, "witness_choice_sequence": w})
    # a miss within the small bound is not yet a verdict: look again, for the missing pairs only, with a deeper and wider
    # bound (a guard that needs five or six stack items is legitimate)
    retry = {(P, k) for P, k, any_true in missing if any_true}
    if retry:
        wit2, st2 = bfs.witness_search(env, max_steps=10, max_len=7, only=retry)
        cov["states"] += st2["states"]
        cov["transitions"] += st2["transitions"]
        missing = [(P, k, a) for P, k, a in missing if (P, k) not in wit2]
        wit.update(wit2)
    for P, k, any_true in missing:
        res.add("C12.b", "reach/%s/P%d" % (k, P),
                "no choice sequence from the empty stack (within the breadth-first bound) reaches a state where %s is enabled in protocol %d%s" % (
                    k, P, "" if any_true else "; its guard is true on no abstract state at all: the opcode is dead"),
                PV.op_loc(env, "::can_emit"))
    # (e) the candidate list: get_valid_opcodes must offer an opcode in at least one state where its guard holds.  The witnesses
    # above are found on the guards (can_emit leaves); an opcode that get_valid_opcodes never hands to can_emit, or drops after
    # a true answer (a pre-filter, a skip list), is examined with its real guard: offered in no abstract state = dead.
    lv = PV.op_loc(env, "::get_valid_opcodes")
    for ver in sorted(t2):
        suspects = set()
        for k in t2[ver]:
            if k in special:
                continue
            for (r, pe) in GA.valid_single(env, ver, k):
                res.count("C12.e")
                if pe is not None:
                    res.add("C12.e", "get_valid_opcodes/ends/P%d" % ver, "get_valid_opcodes does not return normally: %s" % (pe.info,), lv)
                    break
                consulted, offered = r
                if not (consulted and offered):
                    suspects.add(k)
        for k in sorted(suspects):
            if isinstance(tr.get(k), Exception) or not any(lf.can_emit and ver in PV.applicable_protocols(lf, env) for lf in tr.get(k) or []):
                continue    # no satisfiable guard: reported by C12.b
            offered, nl, nheld = GA.offered_somewhere(env, ver, k)
            if not offered:
                res.add("C12.e", "offered/%s/P%d" % (k, ver),
                        "protocol %d: get_valid_opcodes never offers %s (%d abstract states examined, its guard holds in %d of them): the candidate list drops it "
                        "before or after consulting can_emit, so it can never be generated" % (ver, k, nl, nheld), lv)
    res.floor("C12.e", 250, "get_valid_opcodes leaves (one per protocol and opcode)")
    # (d) every opcode of the row is actually *written* by some enabled emission leaf of that protocol
    # (an arm may delegate the concrete opcode to another table, e.g. the integer family)
    import emission as E
    written = {}
    for op, lvs in tr.items():
        if isinstance(lvs, Exception):
            continue
        for lf in lvs:
            if not lf.can_emit or lf.end is not None:
                continue
            if lf.flags.get("allow_ext_opcodes") is False or lf.flags.get("allow_buffer_opcodes") is False:
                continue
            parts, _ = E.final_parts(lf.writes)
            if not parts:
                continue
            for row, info, pr in E.decode_stream(parts, spec):
                if row is not None:
                    for P in PV.applicable_protocols(lf, env):
                        written.setdefault(P, set()).add(row["name"])
    for P in sorted(t2):
        for k in t2[P]:
            if k in special or isinstance(tr.get(k), Exception):
                continue
            res.count("C12.d")
            row = spec.row(k)
            if row is not None and row["name"] not in written.get(P, set()):
                res.add("C12.d", "written/%s/P%d" % (k, P),
                        "%s is listed for protocol %d and can be chosen, but no emission path writes its opcode byte for that protocol: it never occurs in protocol-%d output" % (
                            row["name"], P, P), PV.op_loc(env, "::emit_and_process"))
    res.floor("C12.d", 250, "(protocol, opcode) pairs")
    # (c) dedicated sites: STOP always, PROTO for P>=2, FRAME both framed and unframed for P>=4
    import rules_gen
    for ver in (4, 5):
        framed = unframed = 0
        for g in rules_gen.gen_leaves(env, ver):
            if not rules_gen.ok_leaf(g):
                continue
            if any(w[0] == "patch" for w in g.writes):
                framed += 1
            else:
                unframed += 1
        res.count("C12.c")
        if not framed or not unframed:
            res.add("C12.c", "generate_internal/frame-choice/V%d" % ver, "protocol %d: framed leaves %d, unframed leaves %d (both must exist)" % (ver, framed, unframed),
                    PV.op_loc(env, "::generate_internal"))
    res.coverage = dict(cov)
    res.coverage.update({"explanation": "table completeness for all (protocol, opcode) pairs plus, for every pair, a witness choice sequence from the empty stack found by "
                         "breadth-first search over the extracted transition relation (necessary condition: the precondition can be met). Whether a seed in a fixed "
                         "range hits the sequence is a statement about ChaCha8 output and is not decided.",
                         "evaluations": n, "distinct_nontrivial": max(2, len(wit)), "witnesses_found": len(wit), "samples": samples or [{"note": "no witness sample"}]})
    res.undecided = ["existence of a witness *seed* in a fixed seed range (probabilistic; not a static property)"]
    res.assumptions = ["opt-in flags on for EXT*/buffer opcodes; uniform choice gives every enabled opcode positive probability (weighted_choice: C09/C18)"]
    return res
