"""C05: only opcodes of the requested protocol, right header, protocol 0 is 7-bit ASCII."""
import emission as E
import rules_pvm as PV
import gen_analysis as GA
from framework import Result


def rule_C05(env):
    res = Result("C05", "proof")
    spec = env.spec
    prog, ctx = env.prog, env.ctx
    t2 = PV.table_T2(env)
    obligations = 0
    loc_tab = None
    try:
        loc_tab = env.loc(prog.find("opcodes::PICKLE_OPCODES", kind="static"))
    except Exception:
        pass
    # R05.a table rows
    if sorted(t2) != list(range(6)):
        res.add("R05.a", "PICKLE_OPCODES/rows", "per-protocol table has rows %r, expected 0..5" % sorted(t2), loc_tab)
    for P, ops in sorted(t2.items()):
        for k in ops:
            obligations += 1
            res.count("R05.a")
            row = spec.row(k)
            if row is None:
                res.add("R05.a", "PICKLE_OPCODES/%d/%s/unknown" % (P, k), "row %d lists %s which has no reference row" % (P, k), loc_tab)
            elif row["proto"] > P:
                res.add("R05.a", "PICKLE_OPCODES/%d/%s" % (P, k), "protocol-%d row lists %s, introduced in protocol %d" % (P, row["name"], row["proto"]), loc_tab)
    res.floor("R05.a", 22 + 41 + 53 + 55 + 65 + 68, "table entries")
    # R05.b emission leaves (safe)
    tr = PV.get_trans(env, False)
    loc_e = PV.op_loc(env, "::emit_and_process")
    n = 0
    samples = []
    for op, lf in PV.iter_emit_leaves(env, res, tr):
        if lf.end is not None:
            continue
        n += 1
        res.count("R05.b")
        obligations += 1
        if lf.proto_emitted_post != "unchanged":
            res.add("R05.c", "emit_and_process/%s/writes-proto_emitted" % op, "%s changes State.proto_emitted during the body" % op, loc_e)
        parts, probs = E.final_parts(lf.writes)
        if not parts:
            continue
        decoded = E.decode_stream(parts, spec)
        Ps = PV.applicable_protocols(lf, env)
        for row, info, pr in decoded:
            if row is None:
                continue
            bad = [P for P in Ps if row["proto"] > P]
            if bad:
                res.add("R05.b", "emit_and_process/%s/%s" % (op, row["name"]),
                        "arm %s emits %s (protocol %d) in protocol-%s pickles" % (op, row["name"], row["proto"], "/".join(map(str, bad))), loc_e,
                        PV.sample(lf, []))
            if row["name"] == "PROTO":
                res.add("R05.c", "emit_and_process/%s/second-proto" % op, "a PROTO opcode can be emitted inside the body (protocols %r)" % Ps, loc_e)
        if 0 in Ps:
            cs = E.charset_of_parts(parts)
            hi = sorted(c for c in cs if c > 127)
            if hi:
                res.add("R05.d", "emit_and_process/%s/non-ascii" % op,
                        "protocol-0 emission of %s may contain non-ASCII bytes (e.g. 0x%02x)" % (op, hi[0]), loc_e, PV.sample(lf, []))
        if len(samples) < 4:
            samples.append({"op": op, "protocols": Ps, "opcodes": [r["name"] for r, _, _ in decoded if r]})
    res.floor("R05.b", 300, "emission leaves")
    # which opcodes the output contains is decided by decoding it: an emission that is not the one well-formed opcode assumed
    # here (e.g. a raw newline ending a text argument early) turns payload bytes into opcodes of any protocol (O5, as in C01-C04)
    import rules_c04
    tmp = Result("C05", "proof")
    rules_c04.emission_findings(env, tmp, tr, "safe")
    for f in tmp.findings:
        res.add("O5", f.key.split("/", 2)[2], "the emitted bytes are not the single well-formed opcode assumed here, so the decoded stream "
                "contains whatever the payload bytes spell: " + f.msg, f.where, f.detail)
    # collapse phase
    lvs = env.memo("cleanup_leaves", lambda: GA.cleanup_leaves(env))
    loc_c = PV.op_loc(env, "::cleanup_for_stop")
    for lf in lvs:
        Ps = list(range(6)) if lf.version is None else [int(lf.version[1:])]
        for s in lf.steps:
            obligations += 1
            res.count("R05.b-collapse")
            row = spec.row(s["op"])
            if row is None:
                continue
            bad = [P for P in Ps if row["proto"] > P]
            if bad:
                res.add("R05.b", "cleanup_for_stop/%s" % row["name"],
                        "collapse phase emits %s (introduced in protocol %d) in protocol-%s pickles" % (row["name"], row["proto"], "/".join(map(str, bad))),
                        loc_c, {"steps": [x["op"] for x in lf.steps]})
            if 0 in Ps and row["code"] > 127:
                res.add("R05.d", "cleanup_for_stop/%s/non-ascii" % row["name"], "collapse phase writes byte 0x%02x into protocol-0 output" % row["code"], loc_c)
    res.floor("R05.b-collapse", 20, "collapse-phase steps")
    # header
    loc_g = PV.op_loc(env, "::generate_internal")
    proto_code = spec.by_norm["PROTO"]["code"]
    for ver in range(6):
        lvs = env.memo(("gen_leaves", ver), lambda ver=ver: GA.generate_internal_leaves(env, ver))
        for g in lvs:
            if g.end is not None:
                continue
            obligations += 1
            res.count("R05.c")
            first = []
            for w in g.writes:
                if w[0] in ("opaque_emission", "opaque_cleanup"):
                    break
                if w[0] == "out":
                    first.extend(w[1])
            flat = E.flatten(first)
            head = flat[0][1] if flat and flat[0][0] == "lit" else b""
            # opcode bytes generate_internal patches in itself (the FRAME opcode over the reserved bytes)
            for w in g.writes:
                if w[0] == "patch" and w[3] and w[3][0][0] == "lit" and len(w[3][0][1]) == 1 and w[2] == 1:
                    row = spec.by_code.get(w[3][0][1][0])
                    if row is not None and row["proto"] > ver:
                        res.add("R05.b", "generate_internal/%s" % row["name"], "generate_internal writes %s (introduced in protocol %d) into protocol-%d output" % (
                            row["name"], row["proto"], ver), loc_g)
            h = g.h
            pe_field = h.g.fields[ctx.field_index(ctx.gen_adt, "state")].fields[ctx.field_index(ctx.state_adt, "proto_emitted")]
            pe_val = pe_field.value if hasattr(pe_field, "value") else pe_field
            pre_pe = h.proto_emitted.value
            if pre_pe is True:
                continue  # entry state with the flag already set: excluded by C08's reset rule
            if ver >= 2:
                if head[:2] != bytes([proto_code, ver]):
                    res.add("R05.c", "generate_internal/header/V%d" % ver, "protocol-%d output does not start with PROTO %d (found %r)" % (ver, ver, head[:2]), loc_g)
                if pe_val is not True:
                    res.add("R05.c", "generate_internal/proto_emitted/V%d" % ver, "proto_emitted is not set after the header for protocol %d" % ver, loc_g)
                if bytes([proto_code]) in head[2:]:
                    pass
            else:
                if head[:1] == bytes([proto_code]):
                    res.add("R05.c", "generate_internal/header/V%d" % ver, "protocol-%d output starts with PROTO" % ver, loc_g)
                if any(c > 127 for c in E.charset_of_parts(first)) and ver == 0:
                    res.add("R05.d", "generate_internal/header/non-ascii", "protocol-0 header contains non-ASCII bytes", loc_g)
    res.floor("R05.c", 12, "generate_internal leaves")
    nviol = len(res.findings)
    res.coverage = {
        "obligations": obligations, "discharged": max(obligations - nviol, 0),
        "checker_cmd": "./check C05 --tier %s" % env.tier,
        "trusted_base": ["reference/opcodes.json proto column (CPython pickletools)", "rustc MIR export", "analysis/models*.py"],
        "table_rows": {str(k): len(v) for k, v in sorted(t2.items())}, "emission_leaves": n, "samples": samples, "exhaustive": True,
    }
    res.assumptions = ["loop invariant proto_emitted == (P >= 2) is established by emit_proto (checked here) and by reset-on-entry (C08)"]
    return res
