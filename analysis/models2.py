"""Models, part 2: strings, formatting, entropy libraries (rand / arbitrary contracts),
phf, OnceLock.  The five library contracts used for entropy are the trusted base of C18
(DESIGN.md, C18) and are stated next to each model."""
from values import (Agg, Box_, Bytes, FnItem, INT_TYPES, OPTION, Opaque, PathEnd, Payload, RESULT, Ref, Sym,
                    UNINIT, Unanalysable, apply_escapes, bounds, err, is_none, is_some, is_sym, none, ok,
                    part_len, some, ty_range, unit, wrap)
import models as M
from models import MODELS, model, deref, deref1, It, ListIt, VecObj, to_bytes, length_of, bytes_len, into_iter


def as_str(I, v):
    v = deref(I, v)
    if isinstance(v, Bytes):
        return v
    if hasattr(v, "to_bytes"):
        return v.to_bytes(I)
    raise I.unanalysable("string view of %r" % (v,))


def lit_only(b):
    return all(p[0] == "lit" for p in b.parts)


def lit_value(b):
    return b"".join(p[1] for p in b.parts)


def charset_of(I, b):
    cs = set()
    for p in b.parts:
        if p[0] == "lit":
            cs |= set(p[1])
        elif p[0] == "pay":
            if p[1].escapes:
                for c in p[1].charset:
                    cs |= set(apply_escapes(bytes([c]) if c < 256 else chr(c).encode(), p[1].escapes))
            else:
                cs |= set(p[1].charset)
        elif p[0] == "u8":
            lo, hi = bounds(p[1])
            if is_sym(p[1]) and "charset" in p[1].attrs:
                cs |= set(p[1].attrs["charset"])
            else:
                cs |= set(range(lo, hi + 1))
        elif p[0] == "disp":
            cs |= set(b"0123456789-+.eEinfNa")
        else:
            cs |= set(range(256))
    return cs


# ---------------------------------------------------------------------------------------
# fmt
class FmtArg:
    def __init__(self, how, val, ty):
        self.how, self.val, self.ty = how, val, ty


@model("core::fmt::rt::Argument::<'_>::new_display")
def _new_display(I, f, a):
    ty = (f.get("args") or ["", ""])[-1]
    return FmtArg("display", deref(I, a[0]), ty)


@model("core::fmt::rt::Argument::<'_>::new_debug")
def _new_debug(I, f, a):
    ty = (f.get("args") or ["", ""])[-1]
    return FmtArg("debug", deref(I, a[0]), ty)


class FmtArguments:
    def __init__(self, parts):
        self.parts = parts


@model("std::fmt::Arguments::<'a>::new")
def _arguments_new(I, f, a):
    tmpl = deref(I, a[0])
    args = deref(I, a[1])
    if not (isinstance(tmpl, Bytes) and lit_only(tmpl)):
        raise I.unanalysable("format template is not a constant")
    t = lit_value(tmpl)
    argv = M.as_elems(I, args)
    parts = []
    i = 0
    ai = 0
    while True:
        if i >= len(t):
            raise I.unanalysable("format template not terminated")
        n = t[i]
        i += 1
        if n == 0:
            break
        if n < 0x80:
            parts.append(("lit", t[i:i + n]))
            i += n
        elif n == 0x80:
            ln = t[i] | (t[i + 1] << 8)
            i += 2
            parts.append(("lit", t[i:i + ln]))
            i += ln
        elif n == 0xC0:
            if ai >= len(argv):
                raise I.unanalysable("format template has more placeholders than arguments")
            parts.append(fmt_part(I, argv[ai]))
            ai += 1
        else:
            raise I.unanalysable("format placeholder with options (0x%02x): unknown formatting feature" % n)
    return FmtArguments(parts)


def fmt_part(I, arg):
    if not isinstance(arg, FmtArg):
        raise I.unanalysable("format argument %r" % (arg,))
    v = arg.val
    if hasattr(v, "resolve"):
        v = v.resolve(I)
        if isinstance(v, tuple):
            v = v[1]
    ty = arg.ty.lstrip("&")
    if arg.how == "debug":
        return ("pay", Payload("str", range(32, 127), Sym("dbg_len", (), "usize", 0, 4096), origin="debug"))
    if ty in INT_TYPES and ty not in ("bool", "char"):
        if isinstance(v, int):
            return ("lit", str(v).encode())
        return ("disp", v, ty)
    if ty in ("f64", "f32"):
        return ("disp", v, ty)
    if isinstance(v, Bytes):
        return ("sub", v)
    if isinstance(v, Opaque):
        return ("pay", Payload("str", range(32, 127), Sym("opq_len", (), "usize", 0, 4096), origin="opaque"))
    if isinstance(v, Agg) and v.adt not in ("tuple", "array"):
        # Display of a user-defined type: some printable text (what it says is irrelevant unless it is emitted, and then the
        # emission grammar sees an unknown printable payload)
        return ("pay", Payload("str", range(32, 127), Sym("disp_len", (), "usize", 0, 4096), origin="display_of_adt"))
    if isinstance(v, FmtArguments):
        # `{}` of a format_args!() value: the nested text
        sub = []
        for p in v.parts:
            sub.append(p)
        return ("sub", Bytes([q if q[0] != "sub" else ("pay", Payload("str", range(32, 127), Sym("sub_len", (), "usize", 0, 4096), origin="nested")) for q in sub], True))
    raise I.unanalysable("Display of %s value %s" % (ty, type(v).__name__))


@model("std::fmt::Arguments::<'a>::from_str", "std::fmt::Arguments::<'a>::from_str_nonconst")
def _arguments_from_str(I, f, a):
    return FmtArguments([("sub", as_str(I, a[0]))])


@model("std::fmt::format")
def _fmt_format(I, f, a):
    fa = a[0]
    if not isinstance(fa, FmtArguments):
        raise I.unanalysable("fmt::format of %r" % (fa,))
    parts = []
    for p in fa.parts:
        if p[0] == "sub":
            parts.extend(p[1].parts)
        else:
            parts.append(p)
    return Bytes(merge_lits(parts), is_str=True)


@model("std::io::Write::write_fmt")
def _io_write_fmt(I, f, a):
    """`write!(vec, ...)` on an in-memory Vec<u8>: appends the formatted text, cannot fail"""
    w = deref(I, a[0])
    fa = a[1]
    if not isinstance(fa, FmtArguments):
        raise I.unanalysable("io::Write::write_fmt of %s" % type(fa).__name__)
    parts = []
    for p in fa.parts:
        if p[0] == "sub":
            parts.extend(p[1].parts)
        else:
            parts.append(p)
    if isinstance(w, Bytes) and not w.is_str:
        M.bytes_append(I, w, merge_lits(parts))
    elif hasattr(w, "extend_from_slice") and type(w).__name__ == "AbsOutput" and getattr(I, "summ", None) is None:
        w.extend_from_slice(I, Bytes(merge_lits(parts)))
    else:
        raise I.unanalysable("io::Write::write_fmt on %s" % type(w).__name__)
    return ok(unit())


def merge_lits(parts):
    out = []
    for p in parts:
        if p[0] == "lit" and out and out[-1][0] == "lit":
            out[-1] = ("lit", out[-1][1] + p[1])
        elif p[0] == "lit" and not p[1]:
            continue
        else:
            out.append(p)
    return out


# ---------------------------------------------------------------------------------------
# String / str
@model("std::string::String::new", "std::string::String::with_capacity")
def _string_new(I, f, a):
    return Bytes([], is_str=True)


@model("<T as std::string::ToString>::to_string", "std::borrow::Cow::<'_, B>::into_owned",
       "<str as std::borrow::ToOwned>::to_owned", "std::string::String::from_utf8_lossy",
       "<std::string::String as std::convert::From<&str>>::from", "std::str::<impl str>::to_string",
       "std::str::<impl str>::to_owned")
def _to_string(I, f, a):
    v = deref(I, a[0])
    if hasattr(v, "resolve"):
        v = v.resolve(I)
    ty = ((f.get("args") or [""])[0]).lstrip("&")
    if (isinstance(v, int) and not isinstance(v, bool)) or (is_sym(v) and v.ty in INT_TYPES) or isinstance(v, float) or (is_sym(v) and v.ty in ("f64", "f32")):
        if ty not in INT_TYPES and ty not in ("f64", "f32"):
            ty = v.ty if is_sym(v) else ("f64" if isinstance(v, float) else "i64")
        if isinstance(v, int):
            return Bytes([("lit", str(v).encode())], True)
        return Bytes([("disp", v, ty)], True)
    if isinstance(v, Bytes):
        c = v.copy()
        c.is_str = True
        return c
    if isinstance(v, Opaque):
        return v
    if hasattr(v, "to_bytes"):
        c = v.to_bytes(I).copy()
        c.is_str = True
        return c
    raise I.unanalysable("to_string of %r" % (v,))


@model("std::string::String::into_bytes")
def _into_bytes(I, f, a):
    v = deref(I, a[0])
    c = as_str(I, v).copy()
    c.is_str = False
    return c


@model("std::str::from_utf8")
def _from_utf8(I, f, a):
    v = as_str(I, a[0])
    cs = charset_of(I, v)
    if all(c < 128 for c in cs):
        return ok(Ref(Box_(v, "utf8"), ()))
    c = I.run.choose(2, "from_utf8 ok")
    if c == 1:
        return ok(Ref(Box_(v, "utf8"), ()))
    return err(Opaque("Utf8Error"))


WS = b" \t\n\r\x0b\x0c"


@model("core::str::<impl str>::trim")
def _trim(I, f, a):
    v = as_str(I, a[0])
    parts = list(v.parts)
    while parts and parts[-1][0] == "lit":
        s = parts[-1][1].rstrip(WS)
        if s:
            parts[-1] = ("lit", s)
            break
        parts.pop()
    while parts and parts[0][0] == "lit":
        s = parts[0][1].lstrip(WS)
        if s:
            parts[0] = ("lit", s)
            break
        parts.pop(0)
    # a payload at either end may itself start/end with whitespace: only 'disp' parts are immune
    for end in (0, -1):
        if parts and parts[end][0] not in ("lit", "disp"):
            cs = charset_of(I, Bytes([parts[end]]))
            if cs & set(WS):
                parts = [("pay", Payload("str", charset_of(I, Bytes(parts)), Sym("trim_len", (), "usize", 0, 1 << 32), origin="trim"))]
                break
    return Ref(Box_(Bytes(parts, True), "trim"), ())


@model("core::str::<impl str>::trim_end_matches")
def _trim_end_matches(I, f, a):
    v = as_str(I, a[0])
    pat = a[1]
    if not isinstance(pat, int):
        raise I.unanalysable("trim_end_matches with non-char pattern")
    ch = chr(pat).encode()
    parts = list(v.parts)
    while parts and parts[-1][0] == "lit":
        s = parts[-1][1]
        while s.endswith(ch):
            s = s[:-len(ch)]
        if s:
            parts[-1] = ("lit", s)
            break
        parts.pop()
    if parts and parts[-1][0] not in ("lit", "disp"):
        if pat in charset_of(I, Bytes([parts[-1]])):
            parts = [("pay", Payload("str", charset_of(I, Bytes(parts)), Sym("trim_len", (), "usize", 0, 1 << 32), origin="trim"))]
    return Ref(Box_(Bytes(parts, True), "trim"), ())


@model("core::str::<impl str>::parse")
def _parse(I, f, a):
    v = as_str(I, a[0])
    target = (f.get("args") or [""])[0]
    parts = v.parts
    if len(parts) == 1 and parts[0][0] == "disp":
        val, ty = parts[0][1], parts[0][2]
        if target in INT_TYPES and ty in INT_TYPES:
            tlo, thi = ty_range(target)
            lo, hi = bounds(val)
            if lo >= tlo and hi <= thi:
                return ok(val)
            # may not fit: Ok(val) or Err
            c = I.run.choose(2, "parse fits")
            return ok(val) if c else err(Opaque("ParseIntError"))
        if target == "f64" and ty in ("f64", "f32"):
            return ok(val)
        if target == "f64" and ty in INT_TYPES:
            return ok(Sym("cast", (val,), "f64") if is_sym(val) else float(val))
    if lit_only(v):
        s = lit_value(v).decode("utf-8", "replace")
        try:
            if target in INT_TYPES:
                if not s or not (s.lstrip("+-").isdigit()) or (s[0] == "-" and not INT_TYPES[target][1]):
                    raise ValueError
                val = int(s)
                tlo, thi = ty_range(target)
                if not (tlo <= val <= thi):
                    raise ValueError
                return ok(val)
            if target == "f64":
                return ok(float(s))
        except ValueError:
            return err(Opaque("ParseError"))
    c = I.run.choose(2, "parse ok")
    if c:
        return ok(Sym("parsed", (), target if target in INT_TYPES or target == "f64" else "usize"))
    return err(Opaque("ParseError"))


def split_on(I, v, ch):
    """split a part list on byte `ch`; payload parts must not contain it"""
    pieces = [[]]
    for p in v.parts:
        if p[0] == "lit":
            segs = p[1].split(bytes([ch]))
            for i, s in enumerate(segs):
                if i > 0:
                    pieces.append([])
                if s:
                    pieces[-1].append(("lit", s))
        else:
            if ch in charset_of(I, Bytes([p])):
                return None
            pieces[-1].append(p)
    return [Bytes(x, True) for x in pieces]


class SplitIt(It):
    def __init__(self, pieces):
        self.pieces = pieces
        self.i = 0

    def next(self, I):
        if self.i < len(self.pieces):
            self.i += 1
            return some(Ref(Box_(self.pieces[self.i - 1], "piece"), ()))
        return none()


class AbstractSplitN(It):
    """splitn(2, c) on a string whose payload may contain c"""

    def __init__(self, v, ch, cs):
        self.v, self.ch, self.cs = v, ch, cs
        self.i = 0

    def next(self, I):
        self.i += 1
        if self.i == 1:
            cs = set(self.cs) - {self.ch}
            return some(Ref(Box_(Bytes([("pay", Payload("str", cs, Sym("piece_len", (), "usize", 0, 1 << 16), origin="splitn0"))], True), "piece"), ()))
        if self.i == 2:
            c = I.run.choose(2, "splitn second piece")
            if c:
                return some(Ref(Box_(Bytes([("pay", Payload("str", self.cs, Sym("piece_len", (), "usize", 0, 1 << 16), origin="splitn1"))], True), "piece"), ()))
        return none()


@model("core::str::<impl str>::split")
def _split(I, f, a):
    v = as_str(I, a[0])
    if not isinstance(a[1], int) or a[1] > 127:
        raise I.unanalysable("split with non-ASCII-char pattern")
    pieces = split_on(I, v, a[1])
    if pieces is None:
        raise I.unanalysable("split: payload may contain the separator")
    return SplitIt(pieces)


@model("core::str::<impl str>::splitn")
def _splitn(I, f, a):
    v = as_str(I, a[0])
    n, ch = a[1], a[2]
    if n != 2 or not isinstance(ch, int):
        raise I.unanalysable("splitn(%r, %r)" % (n, ch))
    if lit_only(v):
        s = lit_value(v).split(chr(ch).encode(), 1)
        return SplitIt([Bytes([("lit", x)] if x else [], True) for x in s])
    return AbstractSplitN(v, ch, charset_of(I, v))


@model("core::str::<impl str>::split_once")
def _split_once(I, f, a):
    """s.split_once(c): None when c does not occur, else (text before the first c, rest)"""
    v = as_str(I, a[0])
    ch = a[1]
    if not isinstance(ch, int):
        raise I.unanalysable("split_once(%r)" % (ch,))
    if lit_only(v):
        b = lit_value(v)
        sep = chr(ch).encode()
        if sep not in b:
            return none()
        x, y = b.split(sep, 1)
        mk = lambda t: Ref(Box_(Bytes([("lit", t)] if t else [], True), "piece"), ())
        return some(Agg("tuple", None, [mk(x), mk(y)]))
    cs = charset_of(I, v)
    if ch not in cs or I.run.choose(2, "split_once finds the separator") == 0:
        return none()
    a0 = Bytes([("pay", Payload("str", set(cs) - {ch}, Sym("piece_len", (), "usize", 0, 1 << 16), origin="split_once0"))], True)
    a1 = Bytes([("pay", Payload("str", cs, Sym("piece_len", (), "usize", 0, 1 << 16), origin="split_once1"))], True)
    return some(Agg("tuple", None, [Ref(Box_(a0, "piece"), ()), Ref(Box_(a1, "piece"), ())]))


@model("core::str::<impl str>::lines")
def _lines(I, f, a):
    v = as_str(I, a[0])
    if not lit_only(v):
        raise I.unanalysable("lines() of a symbolic string")
    ls = lit_value(v).decode("utf-8", "replace").splitlines()
    return SplitIt([Bytes([("lit", x.encode())] if x else [], True) for x in ls])


@model("std::str::<impl str>::replace")
def _replace(I, f, a):
    v = as_str(I, a[0])
    pat = a[1]
    to = as_str(I, a[2])
    if not isinstance(pat, int) and lit_only(to):
        # multi-character pattern: nothing is known about WHICH occurrences of its characters are rewritten, so the result is
        # an unescaped string over the old characters plus those of the replacement, at least as long as before
        try:
            pv = lit_value(as_str(I, pat))
        except Unanalysable:
            pv = None
        if pv is not None and len(pv) >= 1:
            tb = lit_value(to)
            cs = set(charset_of(I, v)) | set(tb)
            lo, hi = bounds(bytes_len(I, v)) if is_sym(bytes_len(I, v)) else (bytes_len(I, v),) * 2
            grow = max(1, (len(tb) + len(pv) - 1) // len(pv))
            ln = Sym("replaced_len", (), "usize", lo if len(tb) >= len(pv) else 0, hi * grow)
            return Bytes([("pay", Payload("str", cs, ln, origin="replace_multi:%d" % v.src_id))], True)
    if not isinstance(pat, int) or not lit_only(to):
        raise I.unanalysable("replace with non-constant pattern")
    pb = chr(pat).encode()
    tb = lit_value(to)
    parts = []
    for p in v.parts:
        if p[0] == "lit":
            parts.append(("lit", p[1].replace(pb, tb)))
        elif p[0] == "pay":
            q = p[1]
            parts.append(("pay", Payload(q.kind, q.charset, q.len, q.origin, q.escapes + ((pb, tb),))))
            parts[-1][1].id = q.id
        elif p[0] == "disp":
            if pb in b"0123456789-+.eEinfNa":
                raise I.unanalysable("replace of a character that may occur in a formatted number")
            parts.append(p)
        else:
            raise I.unanalysable("replace over part %r" % (p[0],))
    return Bytes(parts, True)


@model("std::string::String::push")
def _string_push(I, f, a):
    s = as_str(I, a[0])
    c = a[1]
    sm = getattr(I, "summ", None)
    if sm is not None and c is sm.cur and is_sym(c):
        M.bytes_append(I, s, [("self",)])
    elif isinstance(c, int):
        M.bytes_append(I, s, [("lit", chr(c).encode())])
    else:
        M.bytes_append(I, s, [("pay", Payload("str", M.char_set(I, c), 1, origin="push"))])
    return unit()


@model("std::string::String::push_str")
def _string_push_str(I, f, a):
    s = as_str(I, a[0])
    src = as_str(I, a[1])
    sm = getattr(I, "summ", None)
    if sm is not None and (any(src is t for t, _ in sm.tables.values()) or any(src is t for t, _ in sm.log)):
        raise I.unanalysable("push_str of a string that the summarised loop itself builds")
    M.bytes_append(I, s, src.parts)
    return unit()


class CharsIt(It):
    def __init__(self, b):
        self.b = b

    def take(self, I, n):
        return CharsTake(self.b, n)

    def collect(self, I, target):
        if target.startswith("std::vec::Vec<char"):
            return CharVec(self.b.copy())
        if target == "std::string::String":
            return self.b.copy()
        return NotImplemented

    def next(self, I):
        if getattr(self, "_pay", None) is None:
            self._pay = M.PayIt(self.b, "c", False)
        return self._pay.next(I)


class CharsTake(It):
    def __init__(self, b, n):
        self.b, self.n = b, n

    def collect(self, I, target):
        if target != "std::string::String":
            return NotImplemented
        cs = charset_of(I, self.b)
        total = bytes_len(I, self.b)
        n = self.n
        # prefix of min(n, chars) characters; all-ASCII => chars == bytes
        lo_n, hi_n = bounds(n)
        lo_t, hi_t = bounds(total)
        ln = Sym("min", (n, total), "usize", min(lo_n, lo_t), min(hi_n, hi_t))
        I.run.event("prefix_of", self.b.id, n)
        return Bytes([("pay", Payload("str", cs, ln, origin="prefix_of:%d" % self.b.src_id))], True)


class CharVec:
    """Vec<char> built from a string: index assignment replaces one character"""

    def __init__(self, b):
        self.b = b
        self.replaced = []

    def length(self, I):
        cs = charset_of(I, self.b)
        if all(c < 128 for c in cs):
            return bytes_len(I, self.b)
        # multi-byte characters: between ceil(bytes/4) and bytes characters; one symbol per vector (stable identity)
        if getattr(self, "_count", None) is None:
            bl = bytes_len(I, self.b)
            blo, bhi = bounds(bl) if is_sym(bl) else (bl, bl)
            self._count = Sym("char_count", (), "usize", 1 if blo >= 1 else 0, bhi)
        return self._count

    def index_ref(self, I, idx):
        n = self.length(I)
        if I.truth(I.binop("Ge", idx, n, "usize")):
            I.run.panics.append(("index_oob", I.where()))
            raise PathEnd("panic", "index out of bounds")
        return Ref(CharSlot(self, idx), ())

    def get(self, I, idx):
        """chars.get(i) / get_mut(i): None past the end, otherwise the slot"""
        if I.truth(I.binop("Ge", idx, self.length(I), "usize")):
            return none()
        return some(Ref(CharSlot(self, idx), ()))

    def into_iter(self, I):
        return CharVecIt(self)


class CharSlot(Box_):
    __slots__ = ("cv", "idx")

    def __init__(self, cv, idx):
        self.cv, self.idx = cv, idx
        self.name = "char"

    @property
    def v(self):
        return Sym("char_at", (), "char")

    @v.setter
    def v(self, val):
        self.cv.replaced.append((self.idx, val))


class CharVecIt(It):
    def __init__(self, cv):
        self.cv = cv

    def collect(self, I, target):
        if target != "std::string::String":
            return NotImplemented
        cv = self.cv
        cs = set(charset_of(I, cv.b))
        for idx, val in cv.replaced:
            cs |= M.char_set(I, val)
        ln = bytes_len(I, cv.b)
        I.run.event("replaced_chars", cv.b.id, len(cv.replaced))
        reps = [frozenset(M.char_set(I, val)) for idx, val in cv.replaced]
        return Bytes([("pay", Payload("str", cs, ln, origin="charvec_of:%d:%d" % (cv.b.src_id, len(cv.replaced)), meta={"replaced": reps}))], True)

    def next(self, I):
        raise I.unanalysable("element-wise Vec<char> iteration")


@model("core::str::<impl str>::chars")
def _chars(I, f, a):
    return CharsIt(as_str(I, a[0]))


@model("core::str::traits::<impl std::cmp::PartialEq for str>::eq")
def _str_eq(I, f, a):
    x, y = as_str(I, a[0]), as_str(I, a[1])
    if lit_only(x) and lit_only(y):
        return lit_value(x) == lit_value(y)
    return Sym("str_eq", (), "bool")


# ---------------------------------------------------------------------------------------
# phf, OnceLock
@model("phf::Map::<K, V>::get")
def _phf_get(I, f, a):
    m = deref(I, a[0])
    k = deref(I, a[1])
    if hasattr(k, "resolve"):
        k = k.resolve(I)[1]
    if not isinstance(k, int):
        raise I.unanalysable("phf::Map::get with non-constant key %r" % (k,))
    # phf::Map { key: u64, disps: &[..], entries: &[(K, V)] }: lookup = search entries by key
    entries = None
    if isinstance(m, Agg):
        for fld in m.fields:
            e = deref(I, fld)
            try:
                el = M.as_elems(I, e)
            except Unanalysable:
                continue
            if el and isinstance(el[0], Agg) and el[0].adt == "tuple" and len(el[0].fields) == 2 and isinstance(el[0].fields[0], int):
                entries = el
    if entries is None:
        raise I.unanalysable("phf::Map layout not recognised")
    for i, e in enumerate(entries):
        if e.fields[0] == k:
            return some(Ref(M.ListSlot(e.fields, 1), ()))
    return none()


_once_cache = {}


@model("std::sync::OnceLock::<T>::new")
def _oncelock_new(I, f, a):
    return Agg("OnceLock", None, [UNINIT])


@model("std::sync::OnceLock::<T>::get_or_init")
def _oncelock_get_or_init(I, f, a):
    cellref = a[0]
    cell = deref(I, cellref)
    key = (id(I.prog), getattr(cellref.box, "name", ""))
    if key in _once_cache:
        return Ref(Box_(_once_cache[key], "once"), ())
    before = (len(I.run.events), I.run.pos)
    v = I.call_closure(a[1], [])
    cl = M.deref(I, a[1])
    if isinstance(cl, Agg) and cl.adt == "closure" and cl.fields:
        raise I.unanalysable("process-wide lazily initialised value whose initialiser captures state of the calling generator: its content is that of whichever call came first")
    if I.run.pos != before[1]:
        raise I.unanalysable("OnceLock initialiser is not deterministic")
    _once_cache[key] = v
    I.run.event("oncelock_init", key[1])
    return Ref(Box_(v, "once"), ())


# ---------------------------------------------------------------------------------------
# entropy libraries: the trusted contracts (DESIGN.md C18 / reference/lib_contracts.json)
def draw(I, ty, lo=None, hi=None, what="", **attrs):
    s = Sym("draw", (), ty, lo, hi, attrs=dict(attrs, name=what or "draw"))
    I.run.event("draw", what, s)
    return s


def _tparam(f, i=-1):
    args = (f.get("res") or {}).get("args") or f.get("args") or []
    return args[i] if args else ""


@model("rand::Rng::random_range")
def _random_range(I, f, a):
    """contract: random_range(a..b) in [a, b); panics when the range is empty."""
    rng = a[1]
    if isinstance(rng, Agg) and rng.adt.endswith("ops::Range"):
        lo, hi = rng.fields
        if I.truth(I.binop("Ge", lo, hi, "usize")):
            I.run.panics.append(("random_range_empty", I.where()))
            raise PathEnd("panic", "random_range on empty range")
        l0, _ = bounds(lo)
        _, h1 = bounds(hi)
        s = draw(I, "usize", l0, h1 - 1, "random_range")
        s.attrs["range"] = (lo, hi)
        s.attrs["in_range"] = True
        return s
    if isinstance(rng, Agg) and rng.adt.endswith("RangeInclusive"):
        lo, hi = rng.fields[0], rng.fields[1]
        if I.truth(I.binop("Gt", lo, hi, "usize")):
            I.run.panics.append(("random_range_empty", I.where()))
            raise PathEnd("panic", "random_range on empty range")
        l0, _ = bounds(lo)
        _, h1 = bounds(hi)
        ty = _tparam(f, 1) if _tparam(f, 1) in INT_TYPES else "usize"
        s = draw(I, ty, l0, h1, "random_range_incl")
        s.attrs["range_incl"] = (lo, hi)
        return s
    raise I.unanalysable("random_range over %r" % (rng,))


def _fresh_of_type(I, ty, what):
    if ty == "bool":
        return bool(I.run.choose(2, what + " bool"))
    if ty == "f64":
        return None
    if ty in INT_TYPES:
        return draw(I, ty, None, None, what)
    raise I.unanalysable("%s::<%s>" % (what, ty))


@model("rand::Rng::random")
def _rng_random(I, f, a):
    """contract: random::<f64>() in [0,1); integers/bools uniform over the whole type."""
    ty = _tparam(f, 1) if _tparam(f, 1) in INT_TYPES or _tparam(f, 1) == "f64" else _tparam(f, -1)
    for cand in ((f.get("res") or {}).get("args") or []) + (f.get("args") or []):
        cand = I.subst_ty(cand)
        if cand in INT_TYPES or cand in ("f64", "bool"):
            ty = cand
    if ty == "f64":
        s = draw(I, "f64", None, None, "rng_f64")
        s.attrs["f64class"] = "unit"
        return s
    return _fresh_of_type(I, ty, "rng_random")


@model("arbitrary::Unstructured::<'a>::arbitrary")
def _u_arbitrary(I, f, a):
    """contract: Ok(any value of T) or Err when the input is exhausted; never panics."""
    ty = ""
    for cand in ((f.get("res") or {}).get("args") or []) + (f.get("args") or []):
        cand = I.subst_ty(cand)
        if cand in INT_TYPES or cand in ("f64", "bool"):
            ty = cand
    c = I.run.choose(2, "arbitrary ok")
    if c == 0:
        return err(Opaque("arbitrary::Error"))
    if ty == "f64":
        s = draw(I, "f64", None, None, "arb_f64")
        s.attrs["f64class"] = "any"
        return ok(s)
    return ok(_fresh_of_type(I, ty, "arbitrary"))


@model("arbitrary::Unstructured::<'a>::choose_index")
def _u_choose_index(I, f, a):
    """contract: choose_index(n) = Ok(i), i < n, or Err (n == 0 or exhausted)."""
    n = a[1]
    if I.truth(I.binop("Eq", n, 0, "usize")):
        return err(Opaque("arbitrary::Error"))
    c = I.run.choose(2, "choose_index ok")
    if c == 0:
        return err(Opaque("arbitrary::Error"))
    _, hi = bounds(n)
    s = draw(I, "usize", 0, hi - 1, "choose_index")
    s.attrs["range"] = (0, n)
    return ok(s)


@model("std::ops::RangeInclusive::<Idx>::contains", "std::ops::Range::<Idx>::contains")
def _range_contains(I, f, a):
    rng = deref(I, a[0])
    x = deref(I, a[1])
    if not (isinstance(rng, Agg) and rng.adt.endswith(("RangeInclusive", "ops::Range")) and len(rng.fields) >= 2):
        raise I.unanalysable("contains on %r" % (rng,))
    ty = _tparam(f, 0) if _tparam(f, 0) in INT_TYPES else "usize"
    lo, hi = rng.fields[0], rng.fields[1]
    if not I.truth(I.binop("Ge", x, lo, ty)):
        return False
    return I.truth(I.binop("Le" if rng.adt.endswith("RangeInclusive") else "Lt", x, hi, ty))


@model("std::ops::RangeInclusive::<Idx>::new")
def _range_incl_new(I, f, a):
    return Agg("std::ops::RangeInclusive", None, [a[0], a[1]])


@model("arbitrary::Unstructured::<'a>::int_in_range")
def _u_int_in_range(I, f, a):
    """contract: int_in_range(a..=b) = Ok(x), a <= x <= b, or Err; panics when a > b."""
    rng = a[1]
    lo, hi = rng.fields[0], rng.fields[1]
    if I.truth(I.binop("Gt", lo, hi, "usize")):
        I.run.panics.append(("int_in_range_empty", I.where()))
        raise PathEnd("panic", "int_in_range with start > end")
    c = I.run.choose(2, "int_in_range ok")
    if c == 0:
        return err(Opaque("arbitrary::Error"))
    l0, _ = bounds(lo)
    _, h1 = bounds(hi)
    s = draw(I, "usize", l0, h1, "int_in_range")
    s.attrs["range_incl"] = (lo, hi)
    return ok(s)


@model("arbitrary::Unstructured::<'a>::bytes")
def _u_bytes(I, f, a):
    """contract: bytes(n) = Ok(slice of exactly n bytes) or Err."""
    n = a[1]
    c = I.run.choose(2, "bytes ok")
    if c == 0:
        return err(Opaque("arbitrary::Error"))
    return ok(Ref(Box_(Bytes([("pay", Payload("bytes", range(256), n, origin="unstructured_bytes"))]), "ubytes"), ()))


@model("<R as rand::TryRngCore>::try_fill_bytes")
def _try_fill_bytes(I, f, a):
    """contract: fills the whole buffer (length unchanged) or returns Err."""
    buf = deref(I, a[1])
    I.run.event("fill_bytes", buf)
    c = I.run.choose(2, "try_fill ok")
    return ok(unit()) if c else err(Opaque("rand::Error"))


@model("std::vec::from_elem")
def _from_elem(I, f, a):
    v, n = a
    ety = _tparam(f, 0)
    if ety == "u8":
        if isinstance(n, int) and n <= 4096 and isinstance(v, int):
            return Bytes([("lit", bytes([v]) * n)] if n else [])
        cs = {v} if isinstance(v, int) else set(range(256))
        return Bytes([("pay", Payload("bytes", cs, n, origin="from_elem"))])
    if isinstance(n, int) and n <= 4096:
        return VecObj([I.copy_val(v) for _ in range(n)], ety)
    raise I.unanalysable("vec![x; symbolic]")


@model("rand::SeedableRng::seed_from_u64")
def _seed_from_u64(I, f, a):
    I.run.event("rng_seeded", a[0])
    return Opaque("ChaCha8Rng", seeded=True)


@model("rand::SeedableRng::from_os_rng")
def _from_os_rng(I, f, a):
    I.run.event("os_entropy", I.where())
    return Opaque("ChaCha8Rng", seeded=False)


@model("arbitrary::Unstructured::<'a>::new")
def _u_new(I, f, a):
    return Opaque("Unstructured", data=a[0])


# vec![a, b, c] lowering: Box::new_uninit + write + box_assume_init_into_vec_unsafe
@model("std::boxed::Box::<T>::new_uninit")
def _box_new_uninit(I, f, a):
    return M.BoxVal(UNINIT)


@model("std::boxed::box_assume_init_into_vec_unsafe")
def _box_into_vec(I, f, a):
    b = a[0]
    v = b.cbox.v if isinstance(b, M.BoxVal) else deref(I, b)
    while isinstance(v, Agg) and v.adt == "partial":
        live = [x for x in v.fields if x is not UNINIT]
        if len(live) != 1:
            raise I.unanalysable("vec! literal through MaybeUninit: unexpected layout")
        v = live[0]
    ety = _tparam(f, 0)
    if isinstance(v, Agg) and v.adt == "array":
        if ety == "u8":
            return to_bytes(I, v)
        return VecObj(list(v.fields), ety)
    raise I.unanalysable("vec! literal of %r" % (v,))
