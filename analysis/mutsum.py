"""`dyn Mutator` calls: every impl of the trait found in the fact base is interpreted in a
nested exploration on an abstraction of the actual argument; the results are joined into one
summary (value methods) or a set of output effects (post_process)."""
from values import (Agg, Box_, Bytes, INT_TYPES, Opaque, PathEnd, Payload, Ref, Sym, Unanalysable, bounds,
                    is_none, is_some, is_sym, none, some, unit)
import models as M
import models2 as M2
import absgen as G
from interp import Interp, Run, explore

_cache = {}


class MutatorTable:
    def __init__(self, prog):
        self.prog = prog
        self.trait = None
        impls = [i for i in prog.impls if i["trait"] and i["trait"].endswith("mutators::Mutator")]
        if not impls:
            raise Unanalysable("no impl of mutators::Mutator found")
        self.trait = impls[0]["trait"]
        self.impls = impls

    def method_keys(self, name):
        """[(self_ty, body key)] for every impl; falls back to the trait's provided method"""
        out = []
        default = self.trait + "::" + name
        for i in self.impls:
            key = None
            for it in i["items"]:
                if it["name"] == name:
                    key = it["key"]
            if key is None:
                key = default
            if key not in self.prog.bodies:
                raise Unanalysable("Mutator method %s of %s has no body" % (name, i["self_ty"]))
            out.append((i["self_ty"], key))
        return out

    def self_value(self, self_ty, unsafe_mode):
        """abstract mutator struct; bool fields named unsafe_mode follow `unsafe_mode` (None = lazy)"""
        adt = self.prog.adts.get(self_ty)
        if adt is None:
            raise Unanalysable("mutator type %s is not a local ADT" % self_ty)
        fields = []
        for fd in adt["variants"][0]["fields"]:
            if fd["ty"] == "bool":
                if fd["name"] == "unsafe_mode" and unsafe_mode is not None:
                    fields.append(bool(unsafe_mode))
                else:
                    fields.append(G.LazyBool(self_ty.split("::")[-1] + "." + fd["name"]))
            else:
                raise Unanalysable("mutator %s has a non-bool field %s: no abstraction" % (self_ty, fd["name"]))
        return Agg(self_ty, 0, fields)


def sig_of(I, name, v):
    if name in ("mutate_string", "mutate_bytes"):
        b = M2.as_str(I, v)
        lo, hi = b.fixed_len()
        cs = frozenset(M2.charset_of(I, b))
        return ("bytes", b.is_str, lo, hi, cs)
    if name == "mutate_memo_index":
        lo, hi = bounds(v) if not hasattr(v, "resolve") else (0, (1 << 64) - 1)
        return ("int", "usize", lo, hi)
    if name == "mutate_int":
        return ("int", "i32") + tuple(bounds(v))
    if name == "mutate_long":
        return ("int", "i64") + tuple(bounds(v))
    if name == "mutate_float":
        return ("float",)
    raise Unanalysable("unknown Mutator value method %s" % name)


def value_from_sig(sig):
    if sig[0] == "bytes":
        _, is_str, lo, hi, cs = sig
        ln = Sym("in_len", (), "usize", lo, hi if hi is not None else (1 << 32))
        if lo == hi == 0:
            return Bytes([], is_str)
        return Bytes([("pay", Payload("str" if is_str else "bytes", cs, ln, origin="mut_input"))], is_str)
    if sig[0] == "int":
        return Sym("mut_input", (), sig[1], sig[2], sig[3])
    if sig[0] == "float":
        s = Sym("mut_input", (), "f64")
        s.attrs["f64class"] = "any"
        return s


def summarise_value_method(prog, ctx, table, name, sig, unsafe_mode, models_factory):
    ck = (id(prog), name, sig, unsafe_mode)
    if ck in _cache:
        return _cache[ck]
    results = []
    panics = []
    nruns = 0
    per_impl = {}
    for self_ty, key in table.method_keys(name):
        def one(run, key=key, self_ty=self_ty):
            mods = models_factory()
            I2 = Interp(prog, run, mods)
            me = table.self_value(self_ty, unsafe_mode)
            val = value_from_sig(sig)
            src = G.AbsSource(prog)
            rate = Sym("rate", (), "f64", attrs={"name": "rate"})
            res = I2.call(key, [Ref(Box_(me, "mutator"), ()), val, Ref(Box_(src, "source"), ()), rate])
            return (I2, val, res)
        n_some = 0
        for run, res, pe in explore(one, max_runs=5000):
            nruns += 1
            if pe is not None:
                if pe.kind == "panic":
                    panics.append((self_ty, key, pe.info, list(run.panics)))
                continue
            I2, val, r = res
            if is_some(r):
                results.append((self_ty, r.fields[0], I2))
                n_some += 1
        per_impl[self_ty] = n_some
    joined = None
    if results:
        if sig[0] == "bytes":
            cs = set()
            lo = None
            hi = 0
            for _, r, I2 in results:
                b = M2.as_str(I2, r)
                cs |= M2.charset_of(I2, b)
                l, h = b.fixed_len()
                lo = l if lo is None else min(lo, l)
                hi = None if (hi is None or h is None) else max(hi, h)
            joined = ("bytes", sig[1], lo, hi, frozenset(cs))
        elif sig[0] == "int":
            lo = min(bounds(r)[0] for _, r, _ in results)
            hi = max(bounds(r)[1] for _, r, _ in results)
            joined = ("int", sig[1], lo, hi)
        else:
            joined = ("float",)
    out = {"joined": joined, "panics": panics, "runs": nruns, "per_impl": per_impl}
    _cache[ck] = out
    return out


def summarise_post_process(prog, ctx, table, first_byte, nonempty, unsafe_mode, models_factory):
    ck = (id(prog), "post_process", first_byte, nonempty, unsafe_mode)
    if ck in _cache:
        return _cache[ck]
    effects = []
    seen = set()
    panics = []
    nruns = 0
    snap_adt = prog.adt_of("mutators::EmissionSnapshot")
    fnames = [f["name"] for f in prog.adts[snap_adt]["variants"][0]["fields"]]
    for self_ty, key in table.method_keys("post_process"):
        def one(run, key=key, self_ty=self_ty):
            mods = models_factory()
            I2 = Interp(prog, run, mods)
            me = table.self_value(self_ty, unsafe_mode)
            out = G.AbsOutput(ctx)
            snap_len = out.cur_len
            # the emission itself: bytes after the snapshot length
            if nonempty:
                delta = Bytes(([("lit", bytes([first_byte]))] if first_byte is not None else [("u8", Sym("opbyte", (), "u8"))])
                              + [("pay", Payload("bytes", range(256), Sym("rest", (), "usize", 0, 1 << 20), origin="delta_rest"))])
                out.marks.append((snap_len, 0))
                out.writes.append(("out", list(delta.parts)))
                if run.choose(2, "an earlier mutator already rewrote this emission") == 0:
                    out.cur_len = I2.binop("Add", out.cur_len, M.bytes_len(I2, delta), "usize")
                else:
                    # every registered mutator gets the SAME snapshot: for the second one the tail of the buffer is the first
                    # one's replacement, whose length has nothing to do with snapshot.output_delta
                    out.cur_len = I2.binop("Add", out.cur_len, Sym("earlier_replacement_len", (), "usize", 1, 1 << 20), "usize")
            else:
                delta = Bytes([])
                out.marks.append((snap_len, 0))
            fields = []
            for n in fnames:
                if n == "output_len":
                    fields.append(snap_len)
                elif n == "output_delta":
                    fields.append(delta)
                elif n in ("stack_depth", "memo_size"):
                    fields.append(Sym(n, (), "usize"))
                else:
                    fields.append(Opaque(n))
            snap = Agg(snap_adt, 0, fields)
            src = G.AbsSource(prog)
            rate = Sym("rate", (), "f64", attrs={"name": "rate"})
            nbase = len(out.writes)
            res = I2.call(key, [Ref(Box_(me, "mutator"), ()), Ref(Box_(snap, "snapshot"), ()),
                                Ref(Box_(out, "output"), ()), Ref(Box_(src, "source"), ()), rate])
            return (I2, out, nbase, snap_len, res, me)
        for run, res, pe in explore(one, max_runs=5000):
            nruns += 1
            if pe is not None:
                if pe.kind == "panic":
                    panics.append((self_ty, key, pe.info, list(run.panics)))
                continue
            I2, out, nbase, snap_len, r, me = res
            ws = out.writes[nbase:]
            if not ws:
                continue
            eff = []
            for w in ws:
                if w[0] == "truncate":
                    n = w[1]
                    if is_sym(n) and is_sym(snap_len) and n.key() == snap_len.key():
                        eff.append(("truncate_to_snapshot",))
                    else:
                        eff.append(("truncate_other", repr(n)))
                elif w[0] == "out":
                    eff.append(("out", list(w[1])))
                else:
                    eff.append((w[0], "other"))
            sig = repr([(e[0], [(p[0], p[1] if p[0] == "lit" else (p[2] if p[0] == "int" else "")) for p in e[1]] if e[0] == "out" else e[1:]) for e in eff])
            flags = tuple((f.name, f.value) for f in me.fields if isinstance(f, G.LazyBool)) + tuple(
                ("fixed", f) for f in me.fields if isinstance(f, bool))
            if sig not in seen:
                seen.add(sig)
                effects.append({"self_ty": self_ty, "effect": eff, "flags": flags})
    out = {"effects": effects, "panics": panics, "runs": nruns}
    _cache[ck] = out
    return out


def make_virtual_model(prog, ctx, unsafe_mode, models_factory):
    """model for `dyn Mutator` calls.  unsafe_mode: False = safe mutators only, None = any."""
    table = MutatorTable(prog)

    def virtual(I, f, argv):
        name = f["name"]
        if name in ("mutate_int", "mutate_long", "mutate_float", "mutate_string", "mutate_bytes", "mutate_memo_index"):
            val = argv[1]
            if hasattr(val, "resolve"):
                val = val.resolve(I)
            sig = sig_of(I, name, val)
            summ = summarise_value_method(prog, ctx, table, name, sig, unsafe_mode, models_factory)
            I.run.event("mutator_call", name, summ["runs"])
            for p in summ["panics"]:
                I.run.panics.append(("mutator_panic", p[0], p[2]))
            j = summ["joined"]
            if j is None:
                return none()
            c = I.run.choose(2, "mutator %s fires" % name)
            if c == 0:
                return none()
            v = value_from_sig(j)
            if is_sym(v):
                v.attrs["mutated"] = True
            I.run.event("mutated", name)
            return some(v)
        if name == "post_process":
            snap = M.deref(I, argv[1])
            out = M.deref(I, argv[2])
            names = [fd["name"] for fd in prog.adts[snap.adt]["variants"][0]["fields"]]
            delta = snap.fields[names.index("output_delta")]
            snap_len = snap.fields[names.index("output_len")]
            b = M2.as_str(I, delta)
            lo, hi = b.fixed_len()
            nonempty = lo > 0
            if lo == 0 and hi != 0:
                nonempty = bool(I.run.choose(2, "output_delta non-empty"))
            first = None
            if nonempty and b.parts and b.parts[0][0] == "lit" and b.parts[0][1]:
                first = b.parts[0][1][0]
            summ = summarise_post_process(prog, ctx, table, first, nonempty, unsafe_mode, models_factory)
            I.run.event("post_process_call", len(summ["effects"]))
            for p in summ["panics"]:
                I.run.panics.append(("mutator_panic", p[0], p[2]))
            effs = summ["effects"]
            if not effs:
                return False
            c = I.run.choose(1 + len(effs), "post_process effect")
            if c == 0:
                return False
            e = effs[c - 1]
            I.run.event("post_process_rewrite", e["self_ty"], e["flags"])
            for w in e["effect"]:
                if w[0] == "truncate_to_snapshot":
                    out.truncate(I, snap_len)
                elif w[0] == "out":
                    out.extend_from_slice(I, Bytes(list(w[1])))
                else:
                    raise I.unanalysable("post_process effect %r has no model" % (w,))
            return True
        if name == "is_unsafe":
            return Sym("is_unsafe", (), "bool")
        if name == "name":
            return Ref(Box_(Bytes([("pay", Payload("str", range(97, 123), Sym("nlen", (), "usize", 1, 32)))], True), "name"), ())
        raise I.unanalysable("virtual call %s" % f.get("path"))

    return virtual
