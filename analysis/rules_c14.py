"""C14: no leak - ownership-shape rules (cycle capability, tear-down obligation, no deliberate leaks)."""
import re

import callgraph as CG
import cfg
import rules_pvm as PV
from framework import Result

LEAKY = re.compile(r"(std::mem::forget$|Box::<T, A>::leak$|Box::<T>::leak$|::into_raw$|ManuallyDrop::<T>::new$|Rc::<T, A>::increment_strong_count$)")


def rule_C14(env):
    res = Result("C14", "other")
    prog, ctx = env.prog, env.ctx
    # (a1) type graph: can a StackObjectRef be reached from its own payload?
    so = prog.adts[ctx.so_adt]
    holders = []
    for v in so["variants"]:
        for f in v["fields"]:
            if "StackObjectRef" in f["ty"] or "InstanceObject" in f["ty"]:
                holders.append(v["name"])
    holders = sorted(set(holders))
    cycle_capable = bool(holders)
    res.count("adt", len(so["variants"]))
    # (a2) sites that store a live handle into an existing cell, and alias creation (DUP)
    tr = PV.get_trans(env, False)
    storing = {}
    alias_ops = set()
    for op, lvs in tr.items():
        if isinstance(lvs, Exception):
            res.add("engine", "unanalysable/%s" % op, "arm %s cannot be analysed: %s" % (op, lvs), PV.op_loc(env, "::process_stack_ops"))
            continue
        for lf in lvs:
            if not lf.can_emit or lf.end is not None:
                continue
            res.count("leaves")
            for e in lf.events:
                if e[0] == "push" and e[2] == "alias":
                    alias_ops.add(op)
                if e[0] == "store_into":
                    owner = e[1]
                    cell = getattr(owner, "cell", None) if not hasattr(owner, "origin") else owner
                    storing.setdefault(op, 0)
                    storing[op] += 1
    # (b) is there a tear-down?  (a body reachable from reset()/Drop that takes children out of cells)
    cg = CG.CallGraph(prog)
    roots = [k for k in prog.bodies if re.search(r"(state::State::reset$|stack::Stack::reset$|generator::Generator::reset$| as std::ops::Drop>::drop$)", k)]
    reach = cg.reachable(roots)
    teardown = []
    for k in sorted(reach):
        for (_, p, t) in cg.external_calls([k]):
            if re.search(r"(std::mem::replace$|std::mem::take$|Rc::<T, A>::try_unwrap$|Rc::<T, A>::downgrade$|::drain$)", p or "") and \
                    any("StackObject" in a for a in (t["f"].get("args") or []) + ((t["f"].get("res") or {}).get("args") or [])):
                teardown.append((k, p))
    loc = PV.op_loc(env, "::process_stack_ops")
    if cycle_capable and alias_ops and not teardown:
        for op in sorted(storing):
            res.add("cycle", "process_stack_ops/%s" % op,
                    "%s stores a popped handle inside an existing cell; together with DUP (a second strong handle to the same cell) this builds an Rc cycle that "
                    "State::reset()/drop never frees (no tear-down of the object graph exists)" % op, loc,
                    {"alias_creating_opcodes": sorted(alias_ops), "variants_holding_handles": holders})
    # every opcode that puts a second strong handle to an existing cell on the stack widens the set of histories that
    # close a cycle; DUP is the one the format requires (known), any other one is new
    if cycle_capable and not teardown:
        for op in sorted(alias_ops):
            res.add("alias", "process_stack_ops/%s" % op,
                    "%s pushes a second strong handle to a cell that is already held by the stack or the memo (no copy): with the storing opcodes %s this closes Rc cycles "
                    "that are never freed" % (op, sorted(storing)), loc)
    # (c) deliberate leaks / handles in statics
    for k in sorted(prog.bodies):
        if "tests::" in k:
            continue
        for (_, p, t) in cg.external_calls([k]):
            res.count("calls")
            if LEAKY.search(p or ""):
                res.add("leak-call", "%s/%s" % (k.split("::")[-1], (p or "").split("::")[-1]), "%s calls %s: memory is deliberately leaked" % (k, p), env.loc(k))
    for k, b in prog.bodies.items():
        if "tests::" in k:
            continue
        ty = b["ret_ty"]
        holds = "StackObject" in ty or "generator::Generator" in ty or "state::State" in ty
        if holds and (b["kind"] == "static" or (b["kind"] in ("const", "fn") and ("LocalKey" in ty or k.split("::")[-1] in ("__init", "__getit", "__rust_std_internal_init_fn")))):
            res.add("static", k.split("::")[-2] if k.split("::")[-1].startswith("__") else k.split("::")[-1],
                    "process-/thread-wide storage %s: %s keeps simulated objects alive beyond reset()/drop of the generator" % (k, ty), env.loc(k))
    # thread-locals referenced from generation code whose payload type holds handles
    reach_all = cg.reachable([prog.find("generator::Generator::generate"), prog.find("generator::Generator::generate_from_arbitrary")])
    for k in sorted(reach_all):
        for s in cg.statics.get(k, ()):
            if s.startswith("thread_local:"):
                res.add("static", "tls/%s" % s.split("::")[-1], "%s uses thread-local %s: objects stored there outlive the generator" % (k, s), env.loc(k))
        for (_, p, t) in cg.external_calls([k]):
            if re.search(r"std::thread::LocalKey::<T>::(with|try_with|set|replace|take)$", p or ""):
                targs = " ".join((t["f"].get("args") or []) + ((t["f"].get("res") or {}).get("args") or []))
                res.add("static", "tls-access/%s" % k.split("::")[-1],
                        "%s stores into / reads thread-local storage (%s): memory held there is not released by reset() or drop" % (k, targs[:120]), env.loc(k))
    res.floor("leaves", 300, "emission leaves")
    res.floor("calls", 500, "call sites")
    res.coverage = {"explanation": "ownership-shape rules: (a) StackObjectRef = Rc<RefCell<StackObject>> is reachable from its own payload type (variants %s) and the interpreter's "
                    "StoreInto events list every opcode that stores a live handle into an existing cell; with an alias-creating opcode present each such site can close a cycle; "
                    "(b) a tear-down reachable from reset()/Drop is looked for; (c) no mem::forget/Box::leak/Rc::into_raw/ManuallyDrop and no handle-holding static anywhere in the crate." % holders,
                    "evaluations": sum(storing.values()) + len(alias_ops), "distinct_nontrivial": max(2, len(storing)),
                    "storing_opcodes": sorted(storing), "alias_opcodes": sorted(alias_ops), "teardown_candidates": [list(x) for x in teardown],
                    "samples": [{"opcode": op, "store_events": n} for op, n in sorted(storing.items())][:8] or [{"note": "no storing site"}]}
    res.undecided = ["that a tear-down, once present, frees every cycle", "allocator behaviour", "the live-heap equality itself (runtime quantity)"]
    res.assumptions = ["Rc/RefCell semantics of std"]
    return res
