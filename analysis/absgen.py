"""Abstract `Generator` state for the MIR interpreter: lazily materialised simulated stack,
memo size classes, output event log, lazy configuration flags (DESIGN.md 3.3)."""
from values import (Agg, Box_, Bytes, INT_TYPES, Opaque, PathEnd, Payload, Ref, Sym, UNINIT, Unanalysable,
                    bounds, is_none, is_some, is_sym, none, some, unit)
import copy
import re
import models as M
from models import MODELS, model, model_re, deref, deref1, It, RcCell, VecObj, ListIt, to_bytes, length_of


# ========================================================================================
class Lin(Sym):
    """linear term  c + sum(coeff_i * atom_i)  over non-negative leaf symbols (lengths)"""

    def __init__(self, terms, c=0, ty="usize"):
        self.terms = {k: v for k, v in terms.items() if v[1] != 0}
        self.c = c
        lo = hi = c
        for a, k in self.terms.values():
            alo, ahi = a.lo, a.hi
            if k > 0:
                lo += k * alo
                hi = None if (hi is None or ahi is None) else hi + k * ahi
            else:
                hi = None if hi is None else hi + k * alo
                lo = None if (lo is None or ahi is None) else lo + k * ahi
        Sym.__init__(self, "lin", (), ty, lo, hi)

    @staticmethod
    def of(v):
        if isinstance(v, Lin):
            return v
        if isinstance(v, Sym):
            if v.op == "cast" and len(v.args) == 1 and isinstance(v.args[0], Lin) and v.ty in ("u64", "usize"):
                return v.args[0]
            return Lin({v.id: (v, 1)}, 0, v.ty)
        return Lin({}, int(v))

    def key(self):
        return ("lin", self.c) + tuple(sorted((i, k) for i, (a, k) in self.terms.items()))

    def show(self, depth=0):
        s = " + ".join(("%s" % a.show() if k == 1 else "%d*%s" % (k, a.show())) for a, k in self.terms.values())
        if self.c or not s:
            s = (s + " + " if s else "") + str(self.c)
        return "(" + s + ")"

    def combine(self, other, sign, ty=None):
        o = Lin.of(other)
        t = dict(self.terms)
        for i, (a, k) in o.terms.items():
            if i in t:
                t[i] = (a, t[i][1] + sign * k)
            else:
                t[i] = (a, sign * k)
        r = Lin(t, self.c + sign * o.c, ty or self.ty)
        if not r.terms:
            return r.c
        return r

    def binop(self, I, op, other, ty, swapped):
        if isinstance(other, (int, Sym)) and not isinstance(other, bool) and (not is_sym(other) or other.ty in INT_TYPES):
            base = op[:-len("WithOverflow")] if op.endswith("WithOverflow") else op
            if base in ("Add", "Sub") and not (is_sym(other) and not isinstance(other, Lin) and other.args):
                if swapped:
                    res = Lin.of(other).combine(self, 1 if base == "Add" else -1)
                else:
                    res = self.combine(other, 1 if base == "Add" else -1)
                if op.endswith("WithOverflow"):
                    lo, hi = bounds(res)
                    tlo, thi = 0, (1 << 64) - 1
                    if lo is not None and hi is not None and lo >= tlo and hi <= thi:
                        of = False
                    elif base == "Sub":
                        a, b = (other, self) if swapped else (self, other)
                        of = Sym("Lt", (a, b), "bool")
                        d = I.decide_cmp("Lt", a, b)
                        if d is not None:
                            of = d
                    else:
                        of = False  # lengths never approach 2^64 (assumption recorded by the rules)
                    return Agg("tuple", None, [res, of])
                return res
        return NotImplemented

    def cmp_with(self, I, op, other):
        if isinstance(other, float):
            return None
        d = self.combine(other, -1, ty="i128")   # the difference may be negative: do not clamp to usize
        if not is_sym(d):
            return {"Lt": d < 0, "Le": d <= 0, "Gt": d > 0, "Ge": d >= 0, "Eq": d == 0, "Ne": d != 0}[op]
        lo, hi = bounds(d)
        if op in ("Lt", "Ge"):
            if hi is not None and hi < 0:
                return op == "Lt"
            if lo is not None and lo >= 0:
                return op == "Ge"
        if op in ("Le", "Gt"):
            if hi is not None and hi <= 0:
                return op == "Le"
            if lo is not None and lo > 0:
                return op == "Gt"
        if op in ("Eq", "Ne"):
            if (hi is not None and hi < 0) or (lo is not None and lo > 0):
                return op == "Ne"
        return None

    def cast_to(self, I, from_ty, to_ty):
        if to_ty in ("u64", "usize"):
            return self
        s = Sym("cast", (self,), to_ty)
        return s


# ========================================================================================
DEFAULT_CTX = [None]


class KindVar:
    """shared constraint: the set of StackObject variant indices a cell may have"""

    def __init__(self, possible, label):
        self.possible = set(possible)
        self.initial = frozenset(possible)
        self.label = label

    def __repr__(self):
        return "K%s%s" % (self.label, sorted(self.possible))


class ContentSink:
    """Opaque payload of a lazily known StackObject (list items, dict entries, names...)."""

    def __init__(self, owner, label=""):
        self.owner = owner
        self.label = label
        self.children = {}
        self.cell = None

    def __repr__(self):
        return "<content %s>" % self.label

    def get_field(self, I, i):
        if i not in self.children:
            self.children[i] = ContentSink(self.owner, "%s.%s" % (self.label, i))
        return self.children[i]

    def set_field(self, I, i, v):
        I.run.event("store_into", self.owner, "field", describe_handle(v))
        self.children[i] = v if isinstance(v, ContentSink) else ContentSink(self.owner, "%s.%d" % (self.label, i))

    def as_rc(self, I):
        if self.cell is None:
            ctx = DEFAULT_CTX[0]
            self.cell = RcCell(LazyObj(KindVar(ctx.all_kinds, "inner"), ctx), origin="inner")
        return self.cell

    # container-ish API
    def push(self, I, v):
        I.run.event("store_into", self.owner, "push", describe_handle(v))

    def extend(self, I, src):
        I.run.event("store_into", self.owner, "extend", describe_handle(src))

    def insert(self, I, *kv):
        I.run.event("store_into", self.owner, "insert", tuple(describe_handle(x) for x in kv))
        return none()

    def length(self, I):
        if getattr(self, "_len", None) is None:
            self._len = Sym("content_len", (), "usize", 0, 1 << 32)
        return self._len

    def index_get(self, I, idx):
        """element of unknown content: an arbitrary older cell (may alias anything, incl. an object being mutated)"""
        key = ("elem", idx if isinstance(idx, int) else 0)
        cell = self.get_field(I, key).as_rc(I)
        return DEFAULT_CTX[0].mk_ref(cell)

    def to_vec(self, I):
        return ContentSink(None, "copy")

    def iter(self, I):
        """unknown content: no element, or (at least) one element that is an arbitrary older cell"""
        sink = self

        class CIt(It):
            n = 0

            def next(self, I2):
                if self.n >= 1:
                    return none()
                self.n += 1
                if I2.run.choose(2, "content has an element") == 0:
                    return none()
                cell = sink.get_field(I2, ("elem", 0)).as_rc(I2)
                return some(Ref(Box_(DEFAULT_CTX[0].mk_ref(cell), "elem"), ()))
        return CIt()


def describe_handle(v):
    if isinstance(v, Agg) and v.adt.endswith("StackObjectRef"):
        v = v.fields[0]
    if isinstance(v, RcCell):
        return ("cell", v.id, v.origin)
    if isinstance(v, VecObj):
        return ("vec",) + tuple(describe_handle(e) for e in v.elems[:8])
    if isinstance(v, Agg) and v.adt == "tuple":
        return tuple(describe_handle(e) for e in v.fields)
    return type(v).__name__


class LazyObj:
    """A StackObject whose variant is only constrained by a KindVar."""

    def __init__(self, kv, ctx):
        self.kv = kv
        self.ctx = ctx
        self.content = ContentSink(self, "payload")

    def __repr__(self):
        names = [self.ctx.kind_names[i] for i in sorted(self.kv.possible)]
        return "Lazy(%s)" % ("|".join(names) if len(names) <= 4 else "%d kinds" % len(names))

    def discriminant(self, I):
        if len(self.kv.possible) == 1:
            return self.ctx.kind_discr[next(iter(self.kv.possible))]
        return KindDiscr(self)

    def get_field(self, I, i):
        return self.content.get_field(I, i)

    def set_field(self, I, i, v):
        self.content.set_field(I, i, v)

    def clone(self):
        return LazyObj(self.kv, self.ctx)


class KindDiscr:
    """symbolic discriminant of a LazyObj: forks at switchInt, narrowing the KindVar"""

    def __init__(self, obj):
        self.obj = obj

    def on_switch(self, I, targets, otherwise):
        kv = self.obj.kv
        ctx = self.obj.ctx
        groups = {}
        rest = set(kv.possible)
        for val, bb in targets:
            vi = ctx.discr_kind.get(val)
            if vi is not None and vi in kv.possible:
                groups.setdefault(bb, set()).add(vi)
                rest.discard(vi)
        opts = sorted(groups.items())
        if rest:
            opts.append((otherwise, rest))
        # merge groups that go to the same block
        merged = {}
        for bb, s in opts:
            merged.setdefault(bb, set()).update(s)
        opts = sorted(merged.items())
        c = I.run.choose(len(opts), "kind of %s" % kv.label)
        bb, s = opts[c]
        kv.possible = set(s)
        return bb

    def binop(self, I, op, other, ty, swapped):
        if op in ("Eq", "Ne") and isinstance(other, int):
            kv = self.obj.kv
            vi = self.obj.ctx.discr_kind.get(other)
            if vi is None or vi not in kv.possible:
                return op == "Ne"
            if kv.possible == {vi}:
                return op == "Eq"
            c = I.run.choose(2, "kind==%d of %s" % (other, kv.label))
            if c == 1:
                kv.possible = {vi}
                return op == "Eq"
            kv.possible.discard(vi)
            return op == "Ne"
        return NotImplemented


class LazyBool:
    def __init__(self, name, run_events=True):
        self.name = name
        self.value = None

    def __repr__(self):
        return "LazyBool(%s=%r)" % (self.name, self.value)

    def as_bool(self, I):
        if self.value is None:
            self.value = bool(I.run.choose(2, "flag " + self.name))
        return self.value

    def on_switch(self, I, targets, otherwise):
        v = int(self.as_bool(I))
        for val, bb in targets:
            if val == v:
                return bb
        return otherwise


class LazyEnum:
    """fieldless enum value (Version, GenerationSource tag...) chosen at first inspection"""

    def __init__(self, name, adt, variants, prog_adts=None):
        self.name = name
        self.adt = adt
        self.variants = list(variants)  # [(idx, discr, vname)]
        self.chosen = None

    def __repr__(self):
        return "LazyEnum(%s=%r)" % (self.name, self.chosen)

    def resolve(self, I):
        if self.chosen is None:
            c = I.run.choose(len(self.variants), "enum " + self.name)
            self.chosen = self.variants[c]
        return self.chosen

    def discriminant(self, I):
        return self.resolve(I)[1]

    def cast_to(self, I, from_ty, to_ty):
        return self.resolve(I)[1]

    def get_field(self, I, i):
        raise Unanalysable("field of fieldless lazy enum %s" % self.name)

    def binop(self, I, op, other, ty, swapped):
        return NotImplemented


# ========================================================================================
class StackLen:
    """len(stack) + off, decided by lazy materialisation.  The term denotes a FIXED number: the length (position) it had when it
    was created.  `off` is always read relative to the current length, i.e. it shifts by the pushes/pops made since (items
    materialised below the known part do not count: they were there all along)."""

    def __init__(self, st, off=0):
        self.st = st
        self._off = off
        self._c0 = len(st.cur) - getattr(st, "prepended", 0)

    @property
    def off(self):
        return self._off - ((len(self.st.cur) - getattr(self.st, "prepended", 0)) - self._c0)

    def __repr__(self):
        return "stack.len%+d" % self.off

    def binop(self, I, op, other, ty, swapped):
        base = op[:-len("WithOverflow")] if op.endswith("WithOverflow") else op
        if isinstance(other, StackLen) and other.st is self.st:
            if op in ("Lt", "Le", "Gt", "Ge", "Eq", "Ne"):
                a, b = (other.off, self.off) if swapped else (self.off, other.off)
                return {"Lt": a < b, "Le": a <= b, "Gt": a > b, "Ge": a >= b, "Eq": a == b, "Ne": a != b}[op]
            if base == "Sub":
                a, b = (other.off, self.off) if swapped else (self.off, other.off)
                if op.endswith("WithOverflow"):
                    return Agg("tuple", None, [a - b if a >= b else 0, a < b])
                return a - b
        if isinstance(other, StackLen) and other.st is not self.st and (op in ("Lt", "Le", "Gt", "Ge", "Eq", "Ne") or base == "Sub"):
            # lengths of two different abstract stacks (e.g. a depth remembered before a stubbed callee rewrote the stack): both
            # are materialised
            a = self.st.exact_len(I) + self.off
            b = other.st.exact_len(I) + other.off
            return I.binop(op, b, a, ty) if swapped else I.binop(op, a, b, ty)
        if isinstance(other, int) and not isinstance(other, bool):
            if base in ("Add", "Sub"):
                if swapped and base == "Sub":
                    # c - (len+off): concrete only if the length is fully known
                    n = self.st.exact_len(I)
                    v = other - (n + self.off)
                    if op.endswith("WithOverflow"):
                        return Agg("tuple", None, [max(v, 0), v < 0])
                    return v
                delta = other if base == "Add" else -other
                res = StackLen(self.st, self.off + delta)
                if op.endswith("WithOverflow"):
                    # overflow of len+off-c below zero  <=>  len < c - off
                    of = False
                    if base == "Sub":
                        of = not self.st.len_at_least(I, other - self.off)
                    return Agg("tuple", None, [res, of])
                return res
            if op in ("Lt", "Le", "Gt", "Ge", "Eq", "Ne"):
                return self._cmp(I, op, other, swapped)
        if is_sym(other) and op in ("Lt", "Le", "Gt", "Ge", "Eq", "Ne", "Sub", "SubWithOverflow"):
            n = self.st.exact_len(I) + self.off
            if swapped:
                return I.binop(op, other, n, ty)
            return I.binop(op, n, other, ty)
        return NotImplemented

    def _cmp(self, I, op, c, swapped):
        if swapped:
            op = {"Lt": "Gt", "Le": "Ge", "Gt": "Lt", "Ge": "Le", "Eq": "Eq", "Ne": "Ne"}[op]
        # len + off OP c   <=>   len OP c - off
        k = c - self.off
        st = self.st
        if op == "Ge":
            return st.len_at_least(I, k)
        if op == "Gt":
            return st.len_at_least(I, k + 1)
        if op == "Lt":
            return not st.len_at_least(I, k)
        if op == "Le":
            return not st.len_at_least(I, k + 1)
        if op == "Eq":
            return st.len_at_least(I, k) and not st.len_at_least(I, k + 1)
        if op == "Ne":
            return not (st.len_at_least(I, k) and not st.len_at_least(I, k + 1))

    def cmp_with(self, I, op, other):
        if isinstance(other, int):
            return self._cmp(I, op, other, False)
        if isinstance(other, StackLen) and other.st is self.st:
            return self.binop(I, op, other, "usize", False)
        return None


class AbsStack:
    """Vec<StackObjectRef> of the simulated PVM stack, materialised from the top."""

    def __init__(self, ctx, depth_bound):
        self.ctx = ctx
        self.cur = []  # bottom -> top (Agg StackObjectRef values)
        self.base_open = True
        self.orig = []  # original cells in order of materialisation (top first)
        self.bound = depth_bound
        self.bound_hit = False

    def __repr__(self):
        return "AbsStack(%s%r)" % ("…" if self.base_open else "|", self.cur)

    # ---- materialisation ----
    def _more(self, I):
        """try to materialise one more original cell below cur[0]"""
        if not self.base_open:
            return False
        if len(self.orig) >= self.bound:
            self.base_open = False
            self.bound_hit = True
            I.run.event("depth_bound")
            return False
        c = I.run.choose(2, "stack has item at orig depth %d" % len(self.orig))
        if c == 0:
            self.base_open = False
            return False
        cell = RcCell(LazyObj(KindVar(self.ctx.all_kinds, "s%d" % len(self.orig)), self.ctx), origin="orig")
        cell.orig_depth = len(self.orig)
        self.orig.append(cell)
        self.cur.insert(0, self.ctx.mk_ref(cell))
        self.prepended = getattr(self, "prepended", 0) + 1
        return True

    def len_at_least(self, I, k):
        while len(self.cur) < k:
            if not self._more(I):
                return False
        return True

    def exact_len(self, I):
        while self._more(I):
            pass
        return len(self.cur)

    # ---- Vec API ----
    def length(self, I):
        return StackLen(self, 0)

    def is_empty(self, I):
        return not self.len_at_least(I, 1)

    def push(self, I, v):
        cell = M.rc_of(I, v)
        alias = any(M.rc_of(I, x) is cell for x in self.cur) or cell.origin == "memo" or \
            any(M.rc_of(I, e) is cell for e in getattr(self.ctx, "_memo_entries", lambda: [])())
        I.run.event("push", cell, "alias" if alias else "new")
        self.cur.append(v)

    def pop(self, I):
        if not self.len_at_least(I, 1):
            I.run.event("pop_empty")
            return none()
        v = self.cur.pop()
        I.run.event("pop", M.rc_of(I, v))
        return some(v)

    def last(self, I):
        if not self.len_at_least(I, 1):
            return none()
        return some(Ref(M.ListSlot(self.cur, len(self.cur) - 1), ()))

    def _slot_from_top(self, I, d):
        """slot at depth d from the top, or None"""
        if d < 0:
            return None
        if not self.len_at_least(I, d + 1):
            return None
        return SlotRef(self, d)

    def get(self, I, idx):
        if isinstance(idx, StackLen):
            d = -idx.off - 1
            if d < 0:
                return none()
            s = self._slot_from_top(I, d)
            return some(Ref(s, ())) if s is not None else none()
        if isinstance(idx, int):
            n = self.exact_len(I)
            if 0 <= idx < n:
                return some(Ref(M.ListSlot(self.cur, idx), ()))
            return none()
        raise I.unanalysable("stack.get(%r)" % (idx,))

    def index_ref(self, I, idx):
        r = self.get(I, idx)
        if is_some(r):
            return r.fields[0]
        I.run.panics.append(("index_oob", I.where()))
        raise PathEnd("panic", "stack index out of bounds")

    def index_get(self, I, idx):
        return I.load(self.index_ref(I, idx))

    def clear(self, I):
        I.run.event("stack_clear")
        self.cur = []
        self.base_open = False

    def iter(self, I):
        return StackIt(self)

    def slice(self, I, lo, hi):
        return StackSlice(self, lo, hi)

    def to_vec(self, I):
        return Opaque("stack_copy")


class StackSlice:
    """stack[lo..hi] with bounds that are integers (from the bottom) or len+off terms (from the top): first/last/len/is_empty"""

    def __init__(self, st, lo, hi):
        self.st, self.lo, self.hi = st, lo, hi

    def __repr__(self):
        return "stack[%r..%r]" % (self.lo, self.hi)

    def length(self, I):
        return I.binop("Sub", self.hi, self.lo, "usize")

    def is_empty(self, I):
        return I.truth(I.binop("Eq", self.length(I), 0, "usize"))

    def _dec(self, I, x):
        return StackLen(x.st, x.off - 1) if isinstance(x, StackLen) else I.binop("Sub", x, 1, "usize")

    def first(self, I):
        if self.is_empty(I):
            return none()
        return self.st.get(I, self.lo)

    def last(self, I):
        if self.is_empty(I):
            return none()
        return self.st.get(I, self._dec(I, self.hi))

    def get(self, I, idx):
        if isinstance(idx, int) and idx == 0:
            return self.first(I)
        raise I.unanalysable("get(%r) on a stack sub-slice" % (idx,))

    def slice(self, I, lo, hi):
        raise I.unanalysable("sub-slice of a stack sub-slice")

    def to_vec(self, I):
        return Opaque("stack_copy")      # a temporary copy of handles (snapshots): its content is not inspected by any rule


class SlotRef(Box_):
    """cell view of the stack slot at fixed depth-from-top at creation time"""
    __slots__ = ("st", "idx")

    def __init__(self, st, d):
        self.st = st
        self.idx = len(st.cur) - 1 - d
        self.name = "stack[top-%d]" % d

    @property
    def v(self):
        return self.st.cur[self.idx]

    @v.setter
    def v(self, val):
        self.st.cur[self.idx] = val


class StackIt(It):
    """slice::Iter over the abstract stack; front = bottom, back = top"""

    def __init__(self, st):
        self.st = st
        self.from_top = 0  # items consumed from the back
        self.from_bottom = 0

    def next_back(self, I):
        if self.from_bottom:
            raise I.unanalysable("mixed-direction iteration over the abstract stack")
        s = self.st._slot_from_top(I, self.from_top)
        if s is None:
            return none()
        self.from_top += 1
        return some(Ref(s, ()))

    def back_index(self, I):
        return StackLen(self.st, -self.from_top - 1)

    def next(self, I):
        # forward (bottom-up) traversal needs the whole stack
        n = self.st.exact_len(I)
        if self.from_bottom + self.from_top < n:
            i = self.from_bottom
            self.from_bottom += 1
            return some(Ref(M.ListSlot(self.st.cur, i), ()))
        return none()

    def any(self, I, f):
        """order-insensitive for pure predicates: evaluated top-down (purity is checked)"""
        before = len(I.run.events)
        res = False
        d = self.from_top
        while True:
            s = self.st._slot_from_top(I, d)
            if s is None:
                break
            if I.truth(I.call_closure(f, [Ref(s, ())])):
                res = True
                break
            d += 1
        for ev in I.run.events[before:]:
            if ev[0] not in ("depth_bound",):
                raise I.unanalysable("predicate passed to any() over the stack has an effect: %r" % (ev[0],))
        return res


# ========================================================================================
MEMO_CLASSES = (0, 1, 2, 255, 256, 257)


class AbsMemo:
    """HashMap<usize, StackObjectRef> with key set {0..n-1}, n from a finite set of size classes"""

    def __init__(self, ctx, classes=MEMO_CLASSES):
        self.ctx = ctx
        self.classes = classes
        self.n0 = None
        self.keys_ = None
        self.entries = {}
        self.puts = []

    def __repr__(self):
        return "AbsMemo(n0=%r)" % (self.n0,)

    def mat(self, I):
        if self.keys_ is None:
            I.run.event("memo_inspected")
            c = I.run.choose(len(self.classes), "memo size class")
            self.n0 = self.classes[c]
            self.keys_ = set(range(self.n0))
        return self.keys_

    def entry(self, k):
        if k not in self.entries:
            cell = RcCell(LazyObj(KindVar(self.ctx.nonmark_kinds, "m%s" % (k,)), self.ctx), origin="memo")
            self.entries[k] = self.ctx.mk_ref(cell)
        return self.entries[k]

    def length(self, I):
        return len(self.mat(I))

    def is_empty(self, I):
        if self.keys_ is None:
            # emptiness only: fork on the class
            self.mat(I)
        return len(self.keys_) == 0

    def contains(self, I, k):
        keys = self.mat(I)
        if isinstance(k, int):
            return k in keys
        if is_sym(k):
            if k.op == "elem_of" and set(k.attrs.get("elems", [None])) <= keys:
                return True
            lo, hi = bounds(k)
            ks = sorted(keys)
            if not ks or hi < ks[0] or lo > ks[-1]:
                return False
            if ks == list(range(ks[0], ks[-1] + 1)) and lo >= ks[0] and hi <= ks[-1]:
                return True
            at = Sym("memo_contains", (k,), "bool")
            res = I.truth(at)
            if res and ks == list(range(ks[0], ks[-1] + 1)):
                k.lo, k.hi = max(k.lo, ks[0]), min(k.hi, ks[-1])
                k.attrs["in_memo"] = True
            return res
        raise I.unanalysable("memo.contains_key(%r)" % (k,))

    def get(self, I, k):
        if not self.contains(I, k):
            I.run.event("memo_get_miss", k)
            return none()
        I.run.event("memo_get", k)
        if isinstance(k, int):
            return some(Ref(Box_(self.entry(k), "memo[%d]" % k), ()))
        return some(Ref(Box_(self.entry(("sym", k.id)), "memo[sym]"), ()))

    def insert(self, I, k, v):
        keys = self.mat(I)
        if hasattr(k, "resolve"):
            k = k.resolve(I)
        cell = M.rc_of(I, v)
        if is_sym(k):
            lo, hi = bounds(k)
            if lo == hi:
                k = lo
        if isinstance(k, int):
            fresh = k not in keys
            I.run.event("memo_put", k, cell, "fresh" if fresh else "redefine", len(keys))
            keys.add(k)
            self.entries[k] = v
            return none()
        I.run.event("memo_put", k, cell, "symbolic", len(keys))
        return none()

    def clear(self, I):
        I.run.event("memo_clear")
        self.n0 = 0 if self.n0 is None else self.n0
        self.keys_ = set()
        self.entries = {}

    def keys_iter(self, I):
        ks = sorted(self.mat(I))
        I.run.event("memo_keys_iter", I.where())
        v = VecObj(ks)
        v.from_memo_keys = True
        return KeysIt(ks)


class KeysIt(ListIt):
    def __init__(self, ks):
        ListIt.__init__(self, ks, by_ref=True)
        self.unordered = True


@model("std::collections::HashMap::<K, V, S, A>::is_empty", "std::collections::BTreeMap::<K, V, A>::is_empty")
def _hm_is_empty(I, f, a):
    m = deref(I, a[0])
    if hasattr(m, "is_empty"):
        return m.is_empty(I)
    raise I.unanalysable("HashMap::is_empty on %r" % (m,))


@model("std::collections::HashMap::<K, V, S, A>::len", "std::collections::HashSet::<T, S, A>::len", "std::collections::BTreeMap::<K, V, A>::len")
def _hm_len(I, f, a):
    return length_of(I, deref(I, a[0]))


@model("std::collections::HashMap::<K, V, S, A>::contains_key", "std::collections::BTreeMap::<K, V, A>::contains_key")
def _hm_contains(I, f, a):
    m = deref(I, a[0])
    return m.contains(I, deref(I, a[1]))


@model("std::collections::HashMap::<K, V, S, A>::get", "std::collections::BTreeMap::<K, V, A>::get")
def _hm_get(I, f, a):
    m = deref(I, a[0])
    return m.get(I, deref(I, a[1]))


_hash_summaries = {}


def _hash_key(I, key):
    """HashMap/HashSet operations hash the key through the crate's own Hash impl.  The impl is interpreted
    once per situation (is a mutable borrow of some cell live?) in a nested exploration on a key of unknown
    kind; its possible panics are added to the current path (which itself continues: hashing has no other effect)."""
    k = key
    if not (isinstance(k, Agg) and k.adt.endswith("StackObjectRef")):
        return
    hk = [b for b in I.prog.bodies if b.endswith("StackObjectRef as std::hash::Hash>::hash")]
    if len(hk) != 1:
        return
    live_mut = any(g.live and g.mut for g in I.guards)
    ck = (id(I.prog), live_mut)
    if ck not in _hash_summaries:
        from interp import Interp as _Interp, explore as _explore
        ctx = DEFAULT_CTX[0]
        panics = set()
        nruns = [0]
        outer_models = I.models

        def one(run):
            I2 = _Interp(I.prog, run, outer_models)
            if live_mut:
                other = RcCell(LazyObj(KindVar(ctx.all_kinds, "borrowed"), ctx), origin="orig")
                g = M.Guard(other, True)
                other.mut = True
                I2.guards.append(g)
            cell = RcCell(LazyObj(KindVar(ctx.all_kinds, "key"), ctx), origin="orig")
            I2.call(hk[0], [Ref(Box_(ctx.mk_ref(cell), "key"), ()), Ref(Box_(Opaque("hasher"), "hasher"), ())])
            return None
        for run, r, pe in _explore(one, max_runs=20000):
            nruns[0] += 1
            for p in run.panics:
                panics.add((p[0], str(p[1])[:80]))
            if pe is not None and pe.kind == "panic" and not run.panics:
                panics.add(("panic", str(pe.info)[:80]))
        _hash_summaries[ck] = (sorted(panics), nruns[0])
    panics, n = _hash_summaries[ck]
    I.run.event("key_hashed", n, len(panics))
    for p in panics:
        I.run.panics.append(("in_key_hash",) + p)


@model("std::collections::HashMap::<K, V, S, A>::insert", "std::collections::HashSet::<T, S, A>::insert", "std::collections::BTreeMap::<K, V, A>::insert")
def _hm_insert(I, f, a):
    m = deref(I, a[0])
    _hash_key(I, a[1])
    if isinstance(a[0], Ref) and isinstance(a[0].box, M.CellBox):
        I.run.event("store_into", a[0].box.cell, "insert", tuple(describe_handle(x) for x in a[1:]))
    return m.insert(I, *a[1:])


@model_re(r"^<std::collections::Hash(Map|Set)<.*> as std::iter::Extend<.*>>::extend$")
def _hm_extend(I, f, a):
    """map.extend(iter): one insert per element (keys are hashed, handles are stored)"""
    m = deref(I, a[0])
    it = M.into_iter(I, a[1])
    for x in M._drive(I, it):
        parts = list(x.fields) if isinstance(x, Agg) and x.adt == "tuple" else [x]
        _hash_key(I, parts[0])
        if isinstance(a[0], Ref) and isinstance(a[0].box, M.CellBox):
            I.run.event("store_into", a[0].box.cell, "insert", tuple(describe_handle(y) for y in parts))
        m.insert(I, *parts)
    return unit()


@model("std::collections::HashMap::<K, V, S, A>::clear", "std::collections::BTreeMap::<K, V, A>::clear")
def _hm_clear(I, f, a):
    deref(I, a[0]).clear(I)
    return unit()


@model("std::collections::HashMap::<K, V, S, A>::keys")
def _hm_keys(I, f, a):
    m = deref(I, a[0])
    if hasattr(m, "keys_iter"):
        return m.keys_iter(I)
    raise I.unanalysable("HashMap::keys on %r" % (m,))


@model("std::collections::HashMap::<K, V, S, A>::capacity", "std::collections::HashSet::<T, S, A>::capacity")
def _hm_capacity(I, f, a):
    """capacity is an allocator detail: any value not below the length"""
    return Sym("capacity", (), "usize", 0, 1 << 40)


@model("std::collections::HashMap::<K, V, S, A>::shrink_to", "std::collections::HashMap::<K, V, S, A>::shrink_to_fit",
       "std::collections::HashMap::<K, V, S, A>::reserve", "std::collections::HashSet::<T, S, A>::shrink_to",
       "std::collections::HashSet::<T, S, A>::shrink_to_fit", "std::collections::HashSet::<T, S, A>::reserve")
def _hm_capacity_only(I, f, a):
    return unit()            # changes capacity only: no entry is added or removed


@model("std::collections::BTreeMap::<K, V, A>::keys")
def _btm_keys(I, f, a):
    m = deref(I, a[0])
    if hasattr(m, "keys_iter"):
        it = m.keys_iter(I)
        it.unordered = False            # a BTreeMap walks its keys in ascending order
        return it
    raise I.unanalysable("BTreeMap::keys on %r" % (m,))


@model("std::collections::BTreeMap::<K, V, A>::range")
def _btm_range(I, f, a):
    """keys of the abstract memo inside a RangeTo / Range / RangeFrom / RangeInclusive with concrete or bounded ends"""
    m = deref(I, a[0])
    if not isinstance(m, AbsMemo):
        raise I.unanalysable("BTreeMap::range on %r" % (m,))
    r = a[1]
    adt = re.sub(r"<.*$", "", str(getattr(r, "adt", "")))
    fs = [x for x in r.fields] if isinstance(r, Agg) else None
    if fs is None or any(not isinstance(x, int) for x in fs):
        raise I.unanalysable("BTreeMap::range with bounds %r" % (r,))
    ks = sorted(m.mat(I))
    if adt.endswith("RangeTo"):
        ks = [k for k in ks if k < fs[0]]
    elif adt.endswith("RangeFrom"):
        ks = [k for k in ks if k >= fs[0]]
    elif adt.endswith("Range"):
        ks = [k for k in ks if fs[0] <= k < fs[1]]
    elif adt.endswith("RangeToInclusive"):
        ks = [k for k in ks if k <= fs[0]]
    else:
        raise I.unanalysable("BTreeMap::range with %s" % adt)
    I.run.event("memo_keys_iter", I.where())
    return ListIt([Agg("tuple", None, [k, m.entry(k)]) for k in ks], by_ref=False)


class MapObj:
    """payload-only HashMap / HashSet"""

    def __init__(self):
        self.items = []

    def insert(self, I, *kv):
        self.items.append(kv)
        return none() if len(kv) == 2 else True

    def length(self, I):
        return Sym("map_len", (), "usize", 0, len(self.items))

    def clear(self, I):
        self.items = []


@model("std::collections::HashMap::<K, V>::new", "std::collections::HashSet::<T>::new",
       "<std::collections::HashMap<K, V, S> as std::default::Default>::default", "std::collections::BTreeMap::<K, V>::new",
       "<std::collections::BTreeMap<K, V> as std::default::Default>::default")
def _hm_new(I, f, a):
    return MapObj()


@model("<std::collections::HashMap<K, V, S, A> as std::clone::Clone>::clone",
       "<std::collections::HashSet<T, S, A> as std::clone::Clone>::clone")
def _hm_clone(I, f, a):
    m = deref(I, a[0])
    if isinstance(m, MapObj):
        c = MapObj()
        c.items = list(m.items)
        return c
    if isinstance(m, ContentSink):
        return ContentSink(None, "copy")
    raise I.unanalysable("HashMap::clone on %r" % (m,))


# ========================================================================================
class AbsOutput:
    """Generator.output: unknown prefix + log of writes"""

    def __init__(self, ctx):
        self.ctx = ctx
        self.base = Sym("out_base", (), "usize", 0, 1 << 40, attrs={"name": "out_base"})
        self.cur_len = Lin.of(self.base)
        self.writes = []  # (kind, ...)
        self.marks = []  # (len term at that time, index into writes)

    def __repr__(self):
        return "AbsOutput(%d writes)" % len(self.writes)

    def _add_len(self, I, n):
        if hasattr(n, "resolve"):
            n = n.resolve(I)
        self.cur_len = Lin.of(self.cur_len).combine(n, 1)

    def length(self, I):
        I.run.event("out_len_read", self.cur_len, len(self.writes))
        self.marks.append((self.cur_len, len(self.writes)))
        return self.cur_len

    def is_empty(self, I):
        return I.truth(I.binop("Eq", self.cur_len, 0, "usize"))

    def push(self, I, v):
        self.writes.append(("out", [("u8", v)] if not isinstance(v, int) else [("lit", bytes([v & 255]))]))
        I.run.event("out", self.writes[-1][1])
        self._add_len(I, 1)

    def extend_from_slice(self, I, src):
        b = to_bytes(I, src)
        parts = list(b.parts)
        self.writes.append(("out", parts))
        I.run.event("out", parts)
        self._add_len(I, M.bytes_len(I, b))

    def extend(self, I, src):
        self.extend_from_slice(I, src)

    def truncate(self, I, n):
        wi = None
        for ln, w in reversed(self.marks):
            same = (ln == n) if not (is_sym(ln) or is_sym(n)) else (is_sym(ln) and is_sym(n) and ln.key() == n.key())
            if same:
                wi = w
                break
        self.writes.append(("truncate", n, wi))
        I.run.event("out_truncate", n, wi)
        # Vec::truncate(n) is a no-op when n >= len
        d = I.decide_cmp("Le", n, self.cur_len) if is_sym(n) or is_sym(self.cur_len) else (n <= self.cur_len)
        if d is None:
            d = I.truth(I.binop("Le", n, self.cur_len, "usize"))
        if d:
            self.cur_len = n

    def clear(self, I):
        self.writes.append(("clear",))
        I.run.event("out_clear")
        self.cur_len = 0

    def last(self, I):
        """output.last(): the last byte written, when the last effect on the buffer is an append whose final byte is known"""
        if self.is_empty(I):
            return none()
        for w in reversed(self.writes):
            if w[0] == "patch":
                continue            # patches rewrite reserved bytes in the middle (bounds-checked), not the tail
            if w[0] == "out" and w[1]:
                p = w[1][-1]
                if p[0] == "lit" and p[1]:
                    return some(Ref(Box_(p[1][-1], "last"), ()))
                if p[0] == "u8":
                    return some(Ref(Box_(p[1], "last"), ()))
            break
        I.run.event("out_len_read", self.cur_len, len(self.writes))
        return some(Ref(Box_(Sym("out_byte", (), "u8", 0, 255), "last"), ()))

    def index_set(self, I, idx, val):
        self._bounds(I, idx)
        self.writes.append(("patch", idx, 1, [("u8", val)] if not isinstance(val, int) else [("lit", bytes([val & 255]))]))
        I.run.event("out_patch", idx, 1, self.writes[-1][3])

    def index_get(self, I, idx):
        self._bounds(I, idx)
        return Sym("out_byte", (idx,) if is_sym(idx) else (), "u8")

    def _bounds(self, I, idx):
        if I.truth(I.binop("Ge", idx, self.cur_len, "usize")):
            I.run.panics.append(("index_oob", I.where()))
            raise PathEnd("panic", "output index out of bounds")

    def slice(self, I, lo, hi):
        return OutSlice(self, lo, hi)

    def to_vec(self, I):
        I.run.event("out_clone", len(self.writes))
        return OutCopy(self, len(self.writes), self.cur_len)

    def parts_since(self, I, lo):
        """bytes appended since the length was `lo` (None if unknown)"""
        for ln, wi in reversed(self.marks):
            same = (ln == lo) if not (is_sym(ln) or is_sym(lo)) else (is_sym(ln) and is_sym(lo) and ln.key() == lo.key())
            if same:
                parts = []
                for w in self.writes[wi:]:
                    if w[0] != "out":
                        return None
                    parts.extend(w[1])
                return parts
        return None


class OutCopy:
    def __init__(self, out, nwrites, length):
        self.out, self.nwrites, self.len = out, nwrites, length

    def __repr__(self):
        return "OutCopy(%d)" % self.nwrites

    def length(self, I):
        return self.len


class OutSlice:
    def __init__(self, out, lo, hi):
        self.out, self.lo, self.hi = out, lo, hi

    def length(self, I):
        return I.binop("Sub", self.hi, self.lo, "usize")

    def copy_from_slice(self, I, src):
        b = to_bytes(I, src)
        n = self.length(I)
        m = M.bytes_len(I, b)
        if I.truth(I.binop("Ne", n, m, "usize")):
            I.run.panics.append(("copy_from_slice_len", I.where()))
            raise PathEnd("panic", "copy_from_slice length mismatch")
        self.out.writes.append(("patch", self.lo, n, list(b.parts)))
        I.run.event("out_patch", self.lo, n, list(b.parts))

    def slice(self, I, lo, hi):
        return OutSlice(self.out, I.binop("Add", self.lo, lo, "usize"), I.binop("Add", self.lo, hi, "usize"))

    def _bounds(self, I, idx):
        if I.truth(I.binop("Ge", idx, self.length(I), "usize")):
            I.run.panics.append(("index_oob", I.where()))
            raise PathEnd("panic", "index out of bounds of an output sub-slice")

    def index_set(self, I, idx, val):
        self._bounds(I, idx)
        self.out.index_set(I, I.binop("Add", self.lo, idx, "usize"), val)

    def index_get(self, I, idx):
        self._bounds(I, idx)
        return self.out.index_get(I, I.binop("Add", self.lo, idx, "usize"))

    def to_vec(self, I):
        parts = self.out.parts_since(I, self.lo)
        if parts is None:
            return Bytes([("pay", Payload("bytes", range(256), self.length(I), origin="out_slice"))])
        return Bytes(parts)

    def to_bytes(self, I):
        return self.to_vec(I)


@model("<std::vec::Vec<T, A> as std::clone::Clone>::clone")
def _vec_clone(I, f, a):
    v = deref(I, a[0])
    if isinstance(v, ContentSink):
        return ContentSink(None, "copy")
    return MODELS["std::slice::<impl [T]>::to_vec"](I, f, a)


@model("<std::string::String as std::clone::Clone>::clone")
def _string_clone(I, f, a):
    v = deref(I, a[0])
    if isinstance(v, ContentSink):
        return ContentSink(None, "copy")
    if isinstance(v, Bytes):
        return v.copy()
    if isinstance(v, Opaque):
        return v
    raise I.unanalysable("String::clone on %r" % (v,))


# ========================================================================================
class AbsMutators:
    """Vec<Box<dyn Mutator>>: empty or not; iteration yields up to 2 abstract mutators"""

    def __init__(self, ctx, max_iter=1):
        self.ctx = ctx
        self.empty = None
        self.max_iter = max_iter

    def is_empty(self, I):
        if self.empty is None:
            self.empty = bool(1 - I.run.choose(2, "mutators non-empty"))
        return self.empty

    def length(self, I):
        if self.is_empty(I):
            return 0
        return Sym("n_mutators", (), "usize", 1, 64)

    def iter(self, I):
        return MutIt(self)

    def push(self, I, v):
        self.empty = False
        I.run.event("mutators_write", "push")

    def clear(self, I):
        self.empty = True


class DynMutator:
    def __init__(self, i):
        self.i = i

    def __repr__(self):
        return "dyn Mutator#%d" % self.i

    def deref_ref(self, I):
        return Ref(Box_(self, "dyn"), ())


class MutIt(It):
    def __init__(self, ms):
        self.ms = ms
        self.i = 0

    def next(self, I):
        if self.ms.is_empty(I):
            return none()
        if self.i == 0:
            self.i = 1
            return some(Ref(Box_(M.BoxVal(DynMutator(0)), "mutator0"), ()))
        if self.i >= self.ms.max_iter:
            return none()
        c = I.run.choose(2, "another mutator")
        if c == 0:
            return none()
        self.i += 1
        return some(Ref(Box_(M.BoxVal(DynMutator(self.i - 1)), "mutator"), ()))


def contains_obj(v, target, depth=0, seen=None):
    """does the (symbolic) value v mention the object `target`?  (terms, aggregates, byte-string parts, payload lengths)"""
    if v is target:
        return True
    if depth > 8:
        return False
    if seen is None:
        seen = set()
    if id(v) in seen:
        return False
    seen.add(id(v))
    if is_sym(v):
        if any(contains_obj(a, target, depth + 1, seen) for a in v.args):
            return True
        return any(contains_obj(a, target, depth + 1, seen) for a in (v.attrs or {}).get("rel_args", []) or [])
    if isinstance(v, Agg):
        return any(contains_obj(a, target, depth + 1, seen) for a in v.fields)
    if isinstance(v, (list, tuple)):
        return any(contains_obj(a, target, depth + 1, seen) for a in v)
    if isinstance(v, Bytes):
        return any(contains_obj(a, target, depth + 1, seen) for a in v.parts)
    if isinstance(v, Payload):
        return contains_obj(v.len, target, depth + 1, seen)
    return False


def generic_unknown(prog, name, ty, leaves, depth=0):
    """abstract value of unknown content for a field this analysis has no role for: booleans, integers, floats, Option<int>,
    fieldless enums and structs of those.  `leaves` collects the lazily decided / symbolic leaves (to see what was read)."""
    if ty == "bool":
        v = LazyBool(name)
    elif ty in INT_TYPES or ty == "f64":
        v = Sym(name, (), ty, attrs={"name": name})
    elif ty.startswith("std::option::Option<") and ty[len("std::option::Option<"):-1] in INT_TYPES:
        v = LazyOption(name, ty[len("std::option::Option<"):-1])
    elif ty in ("std::vec::Vec<u8>", "std::string::String"):
        v = Bytes([("pay", Payload("str" if ty.endswith("String") else "bytes", range(32, 127) if ty.endswith("String") else range(256),
                                   Sym(name + ".len", (), "usize", 0, 1 << 20), origin="unknown_field:" + name))], ty.endswith("String"))
    elif ty.startswith("std::option::Option<") and ty[len("std::option::Option<"):-1] in ("std::vec::Vec<u8>", "std::string::String", "bool", "f64"):
        inner_leaves = []
        v = LazyOption(name, "usize")
        v.inner = generic_unknown(prog, name + ".some", ty[len("std::option::Option<"):-1], inner_leaves, depth + 1)
    else:
        try:
            adt = prog.adt_of(ty)
        except Unanalysable:
            adt = None
        d = prog.adts.get(adt) if adt is not None else None
        if d is None or depth > 3:
            raise Unanalysable("unknown field %s: %s (no role, no generic abstraction)" % (name, ty))
        vs = d["variants"]
        if d.get("kind") == "enum" or len(vs) > 1:
            if any(x["fields"] for x in vs):
                raise Unanalysable("unknown field %s: %s (enum with payload: no role, no generic abstraction)" % (name, ty))
            v = LazyEnum(name, adt, [(x["idx"], x["discr"] if x["discr"] is not None else x["idx"], x["name"]) for x in vs])
        else:
            fs = [generic_unknown(prog, "%s.%s" % (name, f["name"]), f["ty"], leaves, depth + 1) for f in vs[0]["fields"]]
            return Agg(adt, 0, fs)
    leaves.append(v)
    return v


def leaf_inspected(v, atoms=(), writes=()):
    """was the entry value of this unknown leaf looked at?"""
    if isinstance(v, LazyBool):
        return v.value is not None
    if isinstance(v, (LazyOption, LazyEnum)):
        if v.chosen is not None:
            return True
        v = getattr(v, "inner", None)
        if v is None:
            return False
    if is_sym(v):
        for a in atoms:
            if contains_obj(a[0], v):
                return True
        for w in writes:
            if contains_obj(w, v):
                return True
    return False


# ========================================================================================
class Ctx:
    """per-program constants about StackObject + factory for abstract generator states"""

    def __init__(self, prog):
        self.prog = prog
        self.so_adt = prog.adt_of("stack::StackObject")
        self.sor_adt = prog.adt_of("stack::StackObjectRef")
        vs = prog.adts[self.so_adt]["variants"]
        self.kind_names = {v["idx"]: v["name"] for v in vs}
        self.kind_discr = {v["idx"]: (v["discr"] if v["discr"] is not None else v["idx"]) for v in vs}
        self.discr_kind = {d: i for i, d in self.kind_discr.items()}
        self.kind_index = {v["name"]: v["idx"] for v in vs}
        self.all_kinds = frozenset(self.kind_names)
        self.nonmark_kinds = frozenset(i for i, n in self.kind_names.items() if n != "Mark")
        self.gen_adt = prog.adt_of("generator::Generator")
        self.state_adt = prog.adt_of("state::State")
        self.stack_adt = prog.adt_of("stack::Stack")
        self.version_adt = prog.adt_of("protocol::Version")
        self.opcode_adt = prog.adt_of("opcodes::OpcodeKind")
        DEFAULT_CTX[0] = self

    def mk_ref(self, cell):
        return Agg(self.sor_adt, 0, [cell])

    def field_index(self, adt, name):
        for i, f in enumerate(self.prog.adts[adt]["variants"][0]["fields"]):
            if f["name"] == name:
                return i
        raise Unanalysable("ADT %s has no field %s" % (adt, name))

    def fields(self, adt):
        return [f["name"] for f in self.prog.adts[adt]["variants"][0]["fields"]]

    def version_value(self, p):
        return self.prog.enum_value(self.version_adt, "V%d" % p)

    def opcode_value(self, name):
        return self.prog.enum_value(self.opcode_adt, name)

    def inner_bypass_note(self):
        """for the report on a new (derived-state) field of Stack: the places outside `impl Stack` that take `stack.inner` mutably,
        i.e. that change the stack without going through the methods that could keep such a field consistent"""
        try:
            sites = []
            for k, b in self.prog.bodies.items():
                if "stack::" in k.split("<")[0] or "impl stack::Stack" in k:
                    continue
                for blk in b["blocks"]:
                    if blk.get("cleanup"):
                        continue
                    for st in blk["s"]:
                        rv = st.get("rv") or {}
                        pls = []
                        if st.get("k") == "assign" and rv.get("k") in ("ref", "rawptr") and rv.get("bk") == "mut":
                            pls.append(rv.get("pl") or {})
                        if st.get("k") == "assign":
                            pls.append(st.get("pl") or {})
                        for pl in pls:
                            if any(isinstance(x, dict) and x.get("n") == "inner" for x in pl.get("p", [])):
                                sites.append("%s line %s" % (k.split("::")[-1], st.get("ln")))
            sites = sorted(set(sites))
            if sites:
                return ("; whatever keeps it consistent, these sites mutate `stack.inner` directly and bypass the methods of Stack: " + ", ".join(sites[:6]))[:400]
        except Exception:
            pass
        return ""

    def make_generator(self, depth_bound=7, version=None, flags=None, memo_classes=MEMO_CLASSES, mutators=None, defaults=None):
        """abstract Generator value with every field bound to a special object; unknown new
        fields are a hard error (a new field needs a role before anything can be proved)."""
        flags = flags or {}
        st = AbsStack(self, depth_bound)
        memo = AbsMemo(self, memo_classes)
        out = AbsOutput(self)
        vvars = [(v["idx"], v["discr"] if v["discr"] is not None else v["idx"], v["name"])
                 for v in self.prog.adts[self.version_adt]["variants"]]
        ver = self.version_value(version) if version is not None else LazyEnum("version", self.version_adt, vvars)
        stack_fields = []
        for n in self.fields(self.stack_adt):
            if n == "inner":
                stack_fields.append(st)
            else:
                raise Unanalysable("unknown field Stack.%s (no role)%s" % (n, self.inner_bypass_note()))
        state_fields = []
        extra_scratch = {}
        extra_leaves = {}
        extra_gen = {}
        proto_emitted = LazyBool("proto_emitted")
        for n in self.fields(self.state_adt):
            if n == "version":
                state_fields.append(ver)
            elif n == "proto_emitted":
                state_fields.append(proto_emitted)
            elif n == "stack":
                state_fields.append(Agg(self.stack_adt, 0, stack_fields))
            elif n == "memo":
                state_fields.append(memo)
            else:
                # a field this analysis has no role for is treated as per-pickle scratch of unknown content
                fty = [f["ty"] for f in self.prog.adts[self.state_adt]["variants"][0]["fields"] if f["name"] == n][0]
                lv = []
                v = generic_unknown(self.prog, "state." + n, fty, lv)
                extra_scratch[n] = v
                extra_leaves["state." + n] = lv
                state_fields.append(v)
        gfields = []
        muts = mutators if mutators is not None else AbsMutators(self)
        special = {
            "state": Agg(self.state_adt, 0, state_fields),
            "output": out,
            "seed": LazyOption("seed", "u64"),
            "bufsize": LazyOption("bufsize", "usize"),
            "min_opcodes": Sym("min_opcodes", (), "usize", attrs={"name": "min_opcodes"}),
            "max_opcodes": Sym("max_opcodes", (), "usize", attrs={"name": "max_opcodes"}),
            "mutators": muts,
            "mutation_rate": Sym("mutation_rate", (), "f64", attrs={"name": "mutation_rate"}),
        }
        for n in ("unsafe_mutations", "allow_ext_opcodes", "allow_buffer_opcodes"):
            if n in flags and flags[n] is not None:
                special[n] = flags[n]
            else:
                special[n] = LazyBool(n)
        for f in self.prog.adts[self.gen_adt]["variants"][0]["fields"]:
            n = f["name"]
            if n not in special:
                # no role: unknown content.  Whether it is configuration (never written by generation) or per-pickle
                # state (then it must not be read before it is rewritten) is decided by C08 from what the code does.
                lv = []
                if defaults is not None and n in defaults:
                    special[n] = copy.deepcopy(defaults[n])
                else:
                    special[n] = generic_unknown(self.prog, n, f["ty"], lv)
                extra_gen[n] = special[n]
                extra_leaves[n] = lv
            gfields.append(special[n])
        g = Agg(self.gen_adt, 0, gfields)
        self.last_special = special
        h = GenHandle(self, g, st, memo, out, muts, special, proto_emitted, ver)
        h.extra_scratch = extra_scratch
        h.extra_gen = extra_gen

        def snap(v):
            return ("agg", v.adt, [snap(x) for x in v.fields]) if isinstance(v, Agg) else v
        h.extra_snap = {n: snap(v) for n, v in extra_gen.items()}
        h.extra_leaves = extra_leaves
        return h


class GenHandle:
    def __init__(self, ctx, g, st, memo, out, muts, special, proto_emitted, ver):
        self.ctx, self.g, self.stack, self.memo, self.out, self.mutators = ctx, g, st, memo, out, muts
        self.special = special
        self.proto_emitted = proto_emitted
        self.version = ver
        self.box = Box_(g, "self")

    def ref(self):
        return Ref(self.box, ())

    def flag(self, name):
        v = self.special[name]
        return v.value if isinstance(v, LazyBool) else v

    CONFIG = ("seed", "bufsize", "min_opcodes", "max_opcodes", "mutators", "mutation_rate", "unsafe_mutations",
              "allow_ext_opcodes", "allow_buffer_opcodes")

    def extra_scratch_read_at_entry(self, atoms=(), writes=()):
        """unknown scratch fields of State whose entry value was inspected (read before being overwritten)"""
        out = []
        for n in getattr(self, "extra_scratch", {}):
            if any(leaf_inspected(v, atoms, writes) for v in self.extra_leaves.get("state." + n, [])):
                out.append(n)
        return out

    def extra_gen_read_at_entry(self, atoms=(), writes=()):
        """unknown Generator fields whose entry value was inspected"""
        return [n for n in getattr(self, "extra_gen", {}) if any(leaf_inspected(v, atoms, writes) for v in self.extra_leaves.get(n, []))]

    def extra_state_changed(self):
        st = self.g.fields[self.ctx.fields(self.ctx.gen_adt).index("state")]
        names = self.ctx.fields(self.ctx.state_adt)
        return ["state." + n for n, v in getattr(self, "extra_scratch", {}).items() if st.fields[names.index(n)] is not v or
                (isinstance(v, Agg) and any(not any(x is l for l in self.extra_leaves["state." + n]) for x in v.fields))]

    def extra_gen_rewritten(self):
        """unknown Generator fields none of whose entry leaves is still in place"""
        names = self.ctx.fields(self.ctx.gen_adt)
        out = []

        def leaves_of(v, acc):
            if isinstance(v, Agg):
                for x in v.fields:
                    leaves_of(x, acc)
            else:
                acc.append(v)
            return acc
        for n in getattr(self, "extra_gen", {}):
            cur = leaves_of(self.g.fields[names.index(n)], [])
            if not any(c is l for c in cur for l in self.extra_leaves.get(n, [])):
                out.append(n)
        return out

    def extra_gen_changed(self):
        """unknown Generator fields (or parts of them) that were overwritten during the run"""
        names = self.ctx.fields(self.ctx.gen_adt)
        out = []

        def same(a, snap):
            if isinstance(snap, tuple) and snap and snap[0] == "agg":
                return isinstance(a, Agg) and a.adt == snap[1] and len(a.fields) == len(snap[2]) and all(same(x, y) for x, y in zip(a.fields, snap[2]))
            return a is snap
        for n in getattr(self, "extra_gen", {}):
            if not same(self.g.fields[names.index(n)], self.extra_snap[n]):
                out.append(n)
        return out

    def extra_scratch_unchanged(self):
        st = self.g.fields[self.ctx.fields(self.ctx.gen_adt).index("state")]
        names = self.ctx.fields(self.ctx.state_adt)
        return [n for n, v in getattr(self, "extra_scratch", {}).items() if st.fields[names.index(n)] is v]

    def config_changes(self):
        """configuration fields whose value object was replaced during the run"""
        out = []
        names = self.ctx.fields(self.ctx.gen_adt)
        for i, n in enumerate(names):
            if n in self.CONFIG and self.g.fields[i] is not self.special[n]:
                out.append(n)
        st = self.g.fields[names.index("state")]
        snames = self.ctx.fields(self.ctx.state_adt)
        if st.fields[snames.index("version")] is not self.version:
            out.append("state.version")
        return out

    def kinds_of(self, sref):
        cell = sref.fields[0]
        v = cell.box.v
        if isinstance(v, LazyObj):
            return frozenset(v.kv.possible)
        if isinstance(v, Agg):
            return frozenset([v.variant])
        raise Unanalysable("stack cell holds %r" % (v,))


# ========================================================================================
class LazyInt:
    """an integer that is only materialised (forking) when something depends on it"""

    def __init__(self, thunk, label):
        self.thunk = thunk
        self.label = label
        self.val = None

    def __repr__(self):
        return "LazyInt(%s=%r)" % (self.label, self.val)

    def resolve(self, I):
        if self.val is None:
            self.val = self.thunk(I)
        return self.val

    def binop(self, I, op, other, ty, swapped):
        v = self.resolve(I)
        if isinstance(other, LazyInt):
            other = other.resolve(I)
        return I.binop(op, other, v, ty) if swapped else I.binop(op, v, other, ty)

    def cmp_with(self, I, op, other):
        v = self.resolve(I)
        if isinstance(other, LazyInt):
            other = other.resolve(I)
        r = I.binop(op, v, other, "usize")
        return r if isinstance(r, bool) else None

    def cast_to(self, I, from_ty, to_ty):
        return I.cast_int(self.resolve(I), from_ty, to_ty)


def _memo_length(self, I):
    if self.keys_ is not None:
        return len(self.keys_)
    return LazyInt(lambda I: len(self.mat(I)), "memo.len")


AbsMemo.length = _memo_length


class AbsSource:
    """GenerationSource<'a>: Rand(&mut ChaCha8Rng) | Arbitrary(&mut Unstructured)"""

    def __init__(self, prog, fixed=None):
        adt = prog.adt_of("source::GenerationSource")
        self.adt = adt
        self.variants = [(v["idx"], v["discr"] if v["discr"] is not None else v["idx"], v["name"]) for v in prog.adts[adt]["variants"]]
        self.chosen = None
        if fixed is not None:
            self.chosen = [v for v in self.variants if v[2] == fixed][0]
        self.inner = Ref(Box_(Opaque("entropy_state"), "entropy"), ())

    def __repr__(self):
        return "AbsSource(%s)" % (self.chosen[2] if self.chosen else "?")

    def discriminant(self, I):
        if self.chosen is None:
            c = I.run.choose(len(self.variants), "entropy source kind")
            self.chosen = self.variants[c]
        return self.chosen[1]

    def get_field(self, I, i):
        return self.inner

    def mode(self):
        return self.chosen[2] if self.chosen else None


# ========================================================================================
class MemoLen:
    """memo.len() + off without materialising the size class"""

    def __init__(self, memo, puts, off=0):
        self.memo, self.puts, self.off = memo, puts, off

    def __repr__(self):
        return "memo.len0+%d%+d" % (self.puts, self.off)

    def resolve(self, I):
        self.memo.mat(I)
        return self.memo.n0 + self.puts + self.off

    def binop(self, I, op, other, ty, swapped):
        base = op[:-len("WithOverflow")] if op.endswith("WithOverflow") else op
        if isinstance(other, MemoLen) and other.memo is self.memo:
            a, b = self.puts + self.off, other.puts + other.off
            if swapped:
                a, b = b, a
            if op in ("Lt", "Le", "Gt", "Ge", "Eq", "Ne"):
                return {"Lt": a < b, "Le": a <= b, "Gt": a > b, "Ge": a >= b, "Eq": a == b, "Ne": a != b}[op]
            if base == "Sub" and a >= b:
                return Agg("tuple", None, [a - b, False]) if op.endswith("WithOverflow") else a - b
        if isinstance(other, int) and not isinstance(other, bool) and base == "Add" :
            r = MemoLen(self.memo, self.puts, self.off + other)
            return Agg("tuple", None, [r, False]) if op.endswith("WithOverflow") else r
        v = self.resolve(I)
        if hasattr(other, "resolve"):
            other = other.resolve(I)
        return I.binop(op, other, v, ty) if swapped else I.binop(op, v, other, ty)

    def cmp_with(self, I, op, other):
        r = self.binop(I, op, other, "usize", False)
        return r if isinstance(r, bool) else None

    def cast_to(self, I, from_ty, to_ty):
        return I.cast_int(self.resolve(I), from_ty, to_ty)


def _memo_length2(self, I):
    if self.keys_ is not None:
        return len(self.keys_)
    return MemoLen(self, 0)


AbsMemo.length = _memo_length2


class OutByteSlot(Box_):
    __slots__ = ("out", "idx", "I")

    def __init__(self, out, idx, I):
        self.out, self.idx, self.I = out, idx, I
        self.name = "output[i]"

    @property
    def v(self):
        return self.out.index_get(self.I, self.idx)

    @v.setter
    def v(self, val):
        self.out.index_set(self.I, self.idx, val)


def _out_index_ref(self, I, idx):
    self._bounds(I, idx)
    return Ref(OutByteSlot(self, idx, I), ())


AbsOutput.index_ref = _out_index_ref


class LazyOption:
    """Option<T> configuration value: None or Some(symbol), chosen at first inspection"""

    def __init__(self, name, ty="u64"):
        self.name = name
        self.ty = ty
        self.chosen = None
        self.inner = Sym(name, (), ty, attrs={"name": name})

    def __repr__(self):
        return "LazyOption(%s=%r)" % (self.name, self.chosen)

    def discriminant(self, I):
        if self.chosen is None:
            self.chosen = I.run.choose(2, "option " + self.name)
        return self.chosen

    def get_field(self, I, i):
        return self.inner


@model("<&'a std::collections::HashSet<T, S, A> as std::iter::IntoIterator>::into_iter", "std::collections::HashSet::<T, S, A>::iter")
def _hs_into_iter(I, f, a):
    m = deref(I, a[0])
    I.run.event("hash_container_iterated", I.where())
    if isinstance(m, ContentSink):
        return m.iter(I)
    if isinstance(m, MapObj):
        return ListIt([kv[0] for kv in m.items], by_ref=True)
    raise I.unanalysable("HashSet iteration over %r" % (m,))


@model("<&'a std::collections::HashMap<K, V, S, A> as std::iter::IntoIterator>::into_iter", "std::collections::HashMap::<K, V, S, A>::iter")
def _hmap_into_iter(I, f, a):
    m = deref(I, a[0])
    I.run.event("hash_container_iterated", I.where())
    if isinstance(m, ContentSink):
        inner = m.iter(I)
        other = m.get_field(I, ("vals", 0))

        class PIt(It):
            def next(self, I2):
                r = inner.next(I2)
                if not is_some(r):
                    return r
                v = DEFAULT_CTX[0].mk_ref(other.as_rc(I2))
                return some(Agg("tuple", None, [r.fields[0], Ref(Box_(v, "val"), ())]))
        return PIt()
    if isinstance(m, MapObj):
        lst = [Agg("tuple", None, [Ref(Box_(kv[0], "k"), ()), Ref(Box_(kv[1], "v"), ())]) for kv in m.items if len(kv) == 2]
        return ListIt(lst, by_ref=False)
    raise I.unanalysable("HashMap iteration over %r" % (m,))


MODELS["<std::collections::hash_set::Iter<'a, K> as std::iter::Iterator>::next"] = MODELS["<std::slice::Iter<'a, T> as std::iter::Iterator>::next"]
MODELS["<std::collections::hash_map::Iter<'a, K, V> as std::iter::Iterator>::next"] = MODELS["<std::slice::Iter<'a, T> as std::iter::Iterator>::next"]


def _stack_resolve_index(self, I, at):
    """absolute index (from the bottom) for an int or len-relative value; materialises as needed"""
    if isinstance(at, StackLen):
        k = -at.off
        if k < 0:
            raise PathEnd("panic", "index beyond the end of the stack")
        if not self.len_at_least(I, k):
            raise PathEnd("panic", "index before the start of the stack")
        return len(self.cur) - k
    if isinstance(at, int):
        n = self.exact_len(I)
        if at > n:
            I.run.panics.append(("index_oob", I.where()))
            raise PathEnd("panic", "index out of bounds")
        return at
    raise I.unanalysable("stack index %r" % (at,))


def _stack_split_off(self, I, at):
    i = _stack_resolve_index(self, I, at)
    items = self.cur[i:]
    for v in reversed(items):
        I.run.event("pop", M.rc_of(I, v))
    del self.cur[i:]
    return VecObj(list(items))


def _stack_truncate(self, I, n):
    if isinstance(n, int) and not self.len_at_least(I, n + 1):
        return
    _stack_split_off(self, I, n)


AbsStack.split_off = _stack_split_off
AbsStack.truncate = _stack_truncate


@model("std::vec::Vec::<T, A>::split_off")
def _vec_split_off(I, f, a):
    v = deref(I, a[0])
    if hasattr(v, "split_off"):
        return v.split_off(I, a[1])
    if isinstance(v, VecObj) and isinstance(a[1], int):
        if a[1] > len(v.elems):
            I.run.panics.append(("split_off_oob", I.where()))
            raise PathEnd("panic", "split_off out of bounds")
        tail = v.elems[a[1]:]
        del v.elems[a[1]:]
        return VecObj(tail, v.ety)
    raise I.unanalysable("split_off on %r" % (v,))


@model("std::vec::Vec::<T, A>::insert")
def _vec_insert(I, f, a):
    v = deref(I, a[0])
    if isinstance(v, VecObj) and isinstance(a[1], int):
        if a[1] > len(v.elems):
            I.run.panics.append(("insert_oob", I.where()))
            raise PathEnd("panic", "insert out of bounds")
        v.elems.insert(a[1], a[2])
        return unit()
    raise I.unanalysable("Vec::insert on %r" % (v,))


@model("std::vec::Vec::<T, A>::last_mut", "core::slice::<impl [T]>::last_mut")
def _vec_last_mut(I, f, a):
    return MODELS["core::slice::<impl [T]>::last"](I, f, a)


@model("std::vec::Vec::<T, A>::first", "core::slice::<impl [T]>::first_mut")
def _vec_first(I, f, a):
    return MODELS["core::slice::<impl [T]>::first"](I, f, a)


def _stacklen_on_switch(self, I, targets, otherwise):
    for val, bb in sorted(targets):
        if self._cmp(I, "Eq", val, False):
            return bb
    return otherwise


StackLen.on_switch = _stacklen_on_switch


def _resolving_on_switch(self, I, targets, otherwise):
    v = self.resolve(I)
    for val, bb in targets:
        if val == v:
            return bb
    return otherwise


MemoLen.on_switch = _resolving_on_switch
LazyInt.on_switch = _resolving_on_switch


@model("<std::collections::HashMap<K, V, S, A> as std::ops::Index<&Q>>::index")
def _hm_index(I, f, a):
    m = deref(I, a[0])
    k = deref(I, a[1])
    r = m.get(I, k)
    if is_some(r):
        return r.fields[0]
    I.run.panics.append(("hashmap_index_missing_key", I.where()))
    raise PathEnd("panic", "HashMap index: no entry found for key")
