"""Assume/guarantee summaries of the crate's own EntropySource methods.

Every `impl EntropySource for GenerationSource` method is interpreted (both source kinds,
every Ok/Err outcome of the library calls, per the library contracts in models2) on an
abstraction of the actual arguments; the join of all results is what callers see.  The
summaries are recomputed from the current source on every run, so a changed adapter
changes every analysis that depends on it; C18 checks them against the declared ranges."""
from values import (Agg, Box_, Bytes, INT_TYPES, Opaque, PathEnd, Payload, Ref, Sym, Unanalysable, bounds,
                    is_sym, unit)
import models as M
import models2 as M2
import absgen as G
from interp import Interp, explore

_cache = {}


def arg_sig(v):
    if hasattr(v, "resolve"):
        return None
    if isinstance(v, bool):
        return ("b", v)
    if isinstance(v, int):
        return ("i", v)
    if is_sym(v) and v.ty in INT_TYPES:
        return ("s", v.ty, v.lo, v.hi)
    return None


def arg_from_sig(s, i):
    if s[0] in ("b", "i"):
        return s[1]
    return Sym("arg%d" % i, (), s[1], s[2], s[3])


def summarise(prog, key, sigs, models_factory):
    ck = (id(prog), key, sigs)
    if ck in _cache:
        return _cache[ck]
    results = []
    panics = []
    runs = 0

    def one(run):
        mods = models_factory()
        mods.no_entropy_summaries = True
        I2 = Interp(prog, run, mods)
        src = G.AbsSource(prog)
        args = [arg_from_sig(s, i) for i, s in enumerate(sigs)]
        r = I2.call(key, [Ref(Box_(src, "source"), ())] + args)
        return (I2, src, args, r)
    for run, res, pe in explore(one, max_runs=2000):
        runs += 1
        if pe is not None:
            panics.append((pe.kind, pe.info, list(run.panics)))
            continue
        I2, src, args, r = res
        results.append((src.mode(), args, r, I2))
    out = {"results": results, "panics": panics, "runs": runs}
    _cache[ck] = out
    return out


def join_results(I, key, summ, actual_args):
    rs = summ["results"]
    if not rs:
        raise PathEnd("panic", "entropy method %s never returns" % key)
    vals = [r for _, _, r, _ in rs]
    if all(isinstance(v, bool) for v in vals):
        opts = sorted(set(vals))
        if len(opts) == 1:
            return opts[0]
        return bool(I.run.choose(2, "entropy bool"))
    if all((isinstance(v, int) and not isinstance(v, bool)) or (is_sym(v) and v.ty in INT_TYPES) for v in vals):
        lo = min(bounds(v)[0] for v in vals)
        hi = max(bounds(v)[1] for v in vals)
        ty = next((v.ty for v in vals if is_sym(v)), "usize")
        s = Sym("draw", (), ty, lo, hi, attrs={"name": key.split("::")[-1]})
        cs = set()
        ok = True
        for v in vals:
            try:
                cs |= M.char_set(I, v)
            except Unanalysable:
                ok = False
                break
            if len(cs) > 300:
                ok = False
                break
        if ok:
            s.attrs["charset"] = frozenset(cs)
        # relational fact: result < arg (or result == arg fallback) for every leaf
        rel = []
        for ai, a in enumerate(actual_args):
            if all(_below(v, args[ai]) for _, args, v, _ in rs):
                rel.append(("lt_arg", ai))
            elif all(_below(v, args[ai]) or (isinstance(v, int) and not isinstance(v, bool) and v == 0) for _, args, v, _ in rs) and \
                    all((isinstance(x, int) and x >= 0) or (is_sym(x) and x.ty in INT_TYPES and not x.ty.startswith("i")) for x in [args[ai] for _, args, _, _ in rs]):
                rel.append(("le_arg", ai))      # result <= argument (the fallback 0 for an argument that may be 0)
        if rel:
            s.attrs["rel"] = rel
            s.attrs["rel_args"] = list(actual_args)
        I.run.event("draw", key.split("::")[-1], s)
        return s
    if all(isinstance(v, float) or (is_sym(v) and v.ty == "f64") for v in vals):
        classes = set()
        for v in vals:
            if isinstance(v, float):
                classes.add(("const", v))
            else:
                classes.add(f64_class(v))
        s = Sym("draw", (), "f64", attrs={"name": key.split("::")[-1], "f64classes": frozenset(classes)})
        I.run.event("draw", key.split("::")[-1], s)
        return s
    if all(isinstance(v, Bytes) for v in vals):
        cs = set()
        lo = None
        hi = 0
        for _, _, v, I2 in rs:
            cs |= M2.charset_of(I2, v)
            l, h = v.fixed_len()
            lo = l if lo is None else min(lo, l)
            hi = None if (hi is None or h is None) else max(hi, h)
        ln = lo if lo == hi else Sym("len", (), "usize", lo, hi)
        return Bytes([("pay", Payload("bytes", cs, ln, origin="entropy_bytes"))] if hi != 0 else [])
    raise I.unanalysable("cannot join results of %s: %r" % (key, vals[:3]))


def f64_range(v):
    """(lo, hi) closed float interval of a float term, or None when unknown"""
    if isinstance(v, float):
        return (v, v) if v == v else None
    if isinstance(v, int):
        return (float(v), float(v))
    if not is_sym(v):
        return None
    if v.attrs.get("f64class") == "unit":
        return (0.0, 1.0 - 2.0 ** -53)
    if v.op == "cast" and is_sym(v.args[0]) and v.args[0].ty in INT_TYPES:
        lo, hi = bounds(v.args[0])
        return (float(lo), float(hi))
    if v.op == "div" and isinstance(v.args[1], float) and v.args[1] > 0:
        r = f64_range(v.args[0])
        if r is not None:
            return (r[0] / v.args[1], r[1] / v.args[1])
    if v.op == "mul" and isinstance(v.args[1], float) and v.args[1] > 0:
        r = f64_range(v.args[0])
        if r is not None:
            return (r[0] * v.args[1], r[1] * v.args[1])
    return None


def f64_class(v):
    if "f64classes" in v.attrs and len(v.attrs["f64classes"]) == 1:
        return next(iter(v.attrs["f64classes"]))
    r = f64_range(v)
    if r is not None and r[0] >= 0.0 and r[1] < 1.0:
        return "unit"
    if r is not None:
        return ("range", r[0], r[1])
    return v.attrs.get("f64class", "any")


def _below(v, arg):
    """v < arg holds structurally on this leaf"""
    if isinstance(v, int) and isinstance(arg, int):
        return v < arg
    lo, hi = bounds(v)
    alo, ahi = bounds(arg)
    if hi < alo:
        return True
    if is_sym(v):
        r = v.attrs.get("range")
        if r is not None and r[1] is arg:
            return True
        ri = v.attrs.get("range_incl")
        if ri is not None and is_sym(ri[1]) and ri[1].op in ("sat_sub", "sub") and len(ri[1].args) == 2 and ri[1].args[0] is arg and ri[1].args[1] == 1 and alo >= 1:
            return True
    return False


def install(prog, mods, models_factory):
    """override every method of `impl EntropySource for GenerationSource` by its summary"""
    impls = [i for i in prog.impls if i["trait"] and i["trait"].endswith("source::EntropySource")]
    if len(impls) != 1:
        raise Unanalysable("expected exactly one impl of EntropySource, found %d" % len(impls))
    for it in impls[0]["items"]:
        key = it["key"]
        if key not in prog.bodies:
            continue

        def m(I, f, a, key=key):
            if getattr(I.models, "no_entropy_summaries", False):
                return I.call(key, a)
            args = [x.resolve(I) if hasattr(x, "resolve") else x for x in a[1:]]
            sigs = tuple(arg_sig(x) for x in args)
            if any(s is None for s in sigs):
                return I.call(key, a)
            summ = summarise(prog, key, sigs, models_factory)
            for p in summ["panics"]:
                I.run.panics.append(("entropy_panic", key.split("::")[-1], p[1]))
            return join_results(I, key, summ, args)
        mods.overrides[key] = m
