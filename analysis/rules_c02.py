"""C02: memo discipline (DESIGN.md section 4, C02)."""
import refmachine as R
import emission as E
import rules_pvm as PV
from framework import Result
from values import is_sym, bounds

PUTS = ("Put", "BinPut", "LongBinPut", "Memoize")
GETS = ("Get", "BinGet", "LongBinGet")


def rule_C02(env):
    res = Result("C02", "model_checking")
    tr = PV.get_trans(env)
    spec = env.spec
    n = nobl = 0
    samples = []
    classes_seen = {op: set() for op in PUTS + GETS}
    loc_e = PV.op_loc(env, "::emit_and_process")
    for op in PUTS + GETS:
        lvs = tr.get(op)
        if lvs is not None and not isinstance(lvs, Exception):
            for lf in lvs:
                classes_seen[op].add(lf.memo_n0)
    for op, lf in PV.iter_emit_leaves(env, res, tr):
        sp = spec.spec(op)
        if sp["memo"] is None:
            # no other opcode may touch the memo
            if any(e[0] == "memo_put" for e in lf.events):
                res.add("R02.a", "process_stack_ops/%s/stores-into-memo" % op, "%s stores into the simulated memo" % op,
                        PV.op_loc(env, "::process_stack_ops"))
            continue
        n += 1
        if lf.end is not None:
            continue
        if op in PUTS:
            res.count("R02.a")
            nobl += 3
            # R02.b operand: depth >= 1 and top not MARK, established by the guard
            try:
                p2 = R.o2_check(spec, lf) + R.o1_check(spec, lf)
            except (KeyError, AssertionError, OverflowError) as e:
                p2 = ["cannot evaluate: %r" % (e,)]
            if p2:
                res.add("R02.b", "can_emit/%s/operand" % op, "guard of %s does not exclude an empty stack / a MARK on top: %s" % (op, "; ".join(p2)),
                        PV.op_loc(env, "::can_emit"), PV.sample(lf, p2))
            puts = [e for e in lf.events if e[0] == "memo_put"]
            if len(puts) != 1:
                res.add("R02.b", "process_stack_ops/%s/store-count" % op,
                        "%s: the simulation performs %d memo stores on an enabled path (a silent skip lets the simulated memo drift)" % (op, len(puts)),
                        PV.op_loc(env, "::process_stack_ops"), PV.sample(lf, []))
                continue
            _, k, cell, status, nbefore = puts[0]
            # R02.a freshness: key must be undefined; with key set {0..n-1} that is key == n
            if not (isinstance(k, int) and k == nbefore and status == "fresh"):
                res.add("R02.a", "emit_and_process/%s/index-not-fresh" % op,
                        "%s with %s memo entries defines index %r (%s): the index must be the not-yet-defined len(memo)=%s" % (
                            op, nbefore, k, status, nbefore), loc_e, dict(PV.sample(lf, []), memo_len=nbefore, index=k))
            for p in PV.memo_key_identity(lf):
                res.add("R02.d", "emit_and_process/%s/key-identity" % op, p, loc_e, PV.sample(lf, [p]))
        else:
            res.count("R02.c")
            nobl += 2
            parts, probs = E.final_parts(lf.writes)
            if not parts:
                res.add("R02.c", "emit_and_process/%s/skipped" % op,
                        "%s is enabled (memo non-empty) but nothing is emitted on this path" % op, loc_e, PV.sample(lf, []))
                continue
            misses = [e for e in lf.events if e[0] == "memo_get_miss"]
            gets = [e for e in lf.events if e[0] == "memo_get"]
            if misses or not gets:
                res.add("R02.c", "emit_and_process/%s/unresolved-index" % op,
                        "%s can name memo index %r that no earlier PUT defined (safe mode)" % (op, misses[0][1] if misses else None), loc_e,
                        PV.sample(lf, []))
            for p in PV.memo_key_identity(lf):
                res.add("R02.d", "emit_and_process/%s/key-identity" % op, p, loc_e, PV.sample(lf, [p]))
        if len(samples) < 6:
            samples.append(PV.sample(lf, []))
    res.floor("R02.a", 40, "PUT-family leaves")
    res.floor("R02.c", 30, "GET-family leaves")
    for op, cs in classes_seen.items():
        cs.discard(None)
        if op != "Memoize" and not set(PV.G.MEMO_CLASSES) - {0} <= cs and op in GETS:
            res.add("R02.c", "classes/%s" % op, "memo size classes %r not all exercised for %s (got %r)" % (PV.G.MEMO_CLASSES, op, sorted(cs)))
        if op in PUTS and op != "Memoize" and not set(PV.G.MEMO_CLASSES) <= cs:
            res.add("R02.a", "classes/%s" % op, "memo size classes %r not all exercised for %s (got %r)" % (PV.G.MEMO_CLASSES, op, sorted(cs)))
    # which memo index a GET/PUT names is decided by the BYTES: every emission must be the one well-formed opcode the simulation
    # assumes, otherwise later arguments are read at the wrong offset (O5, shared with C01/C17)
    import rules_c04
    tmp = Result("C02", "model_checking")
    rules_c04.emission_findings(env, tmp, tr, "safe")
    for f in tmp.findings:
        res.add("O5", f.key.split("/", 2)[2], "the emitted bytes are not the single well-formed opcode the simulation assumes, so memo "
                "indices are decoded from the wrong bytes from there on: " + f.msg, f.where, f.detail)
    PV.guard_premise(env, res, "C02")
    bfs = PV.bfs_pass(env, res, "C02")
    PV.coverage_mc(res, env, tr, n, nobl, samples, bfs)
    res.assumptions = PV.ASSUME_PVM + ["results of dyn Mutator::mutate_memo_index are the join over every impl in the crate (OffByOne, MemoIndex safe) at any rate"]
    return res
