"""Fact base: (re)export MIR facts for /repo's *current working tree* and load them.

Every check calls `load_units()`.  The export is keyed by a content digest of the
repository's source files, so the 18 checks of one tree share one compiler pass, but any
edit to /repo forces a new pass.  A missing or stale fact file is a hard error.
"""
import fcntl
import hashlib
import json
import os
import shutil
import subprocess
import sys
import time

VERIF = os.path.dirname(os.path.dirname(os.path.abspath(__file__)))
REPO = os.environ.get("PFZ_REPO", "/repo")
CACHE = os.path.join(VERIF, ".cache")
DRIVER = os.path.join(VERIF, "driver", "target", "release", "pfz-facts")

# Everything that the build or the non-Rust front ends read.
SOURCE_ROOTS = ["src", "data", "scripts", "python", "Cargo.toml", "Cargo.lock", "action.yml",
                "build.rs", "rust-toolchain.toml", "rust-toolchain", ".cargo"]


def _iter_source_files(repo):
    for root in SOURCE_ROOTS:
        p = os.path.join(repo, root)
        if os.path.isfile(p):
            yield p
        elif os.path.isdir(p):
            for dp, dns, fns in os.walk(p):
                dns[:] = sorted(d for d in dns if d not in ("target", "__pycache__", ".git", ".venv"))
                for fn in sorted(fns):
                    if fn.endswith((".pyc", ".so")):
                        continue
                    yield os.path.join(dp, fn)


def tree_digest(repo=REPO):
    h = hashlib.sha256()
    for f in _iter_source_files(repo):
        rel = os.path.relpath(f, repo)
        h.update(rel.encode())
        h.update(b"\0")
        with open(f, "rb") as fh:
            h.update(hashlib.sha256(fh.read()).digest())
    # the driver itself is part of the key: a rebuilt exporter invalidates old facts
    try:
        st = os.stat(DRIVER)
        h.update(("%d-%d" % (st.st_size, int(st.st_mtime))).encode())
    except OSError:
        pass
    return h.hexdigest()[:24]


def _sysroot_lib():
    out = subprocess.run(["rustc", "+nightly", "--print", "sysroot"], capture_output=True, text=True,
                         check=True).stdout.strip()
    return os.path.join(out, "lib")


def ensure_driver():
    if not os.path.exists(DRIVER):
        subprocess.run([os.path.join(VERIF, "setup.sh")], check=True, stdout=sys.stderr)
    if not os.path.exists(DRIVER):
        raise RuntimeError("fact exporter not built: run ./setup.sh")


UNITS = [
    # (unit name, cargo args, expected fact files)
    ("default", ["--lib", "--bins"], ["pickle_fuzzer-lib-default.json", "pickle_fuzzer-bin-default.json"]),
    ("pybind", ["--lib", "--features", "python-bindings"], ["pickle_fuzzer-lib-pybind.json"]),
]


def _export(repo, outdir, nonce):
    ensure_driver()
    env = dict(os.environ)
    env.update({
        "CARGO_NET_OFFLINE": "true",
        "LD_LIBRARY_PATH": _sysroot_lib() + ":" + env.get("LD_LIBRARY_PATH", ""),
        "RUSTFLAGS": "-Zmir-opt-level=0 -Zmir-enable-passes=-CheckAlignment,-CheckNull,-CheckEnums -Awarnings",
        "RUSTC_WORKSPACE_WRAPPER": DRIVER,
        "PFZ_FACTS_OUT": outdir,
        "PFZ_NONCE": nonce,
    })
    env.pop("RUSTC_WRAPPER", None)
    logs = []
    for unit, cargs, expect in UNITS:
        tdir = os.path.join(CACHE, "target-" + unit)
        # cargo's freshness cache would skip the wrapper for an unchanged member: drop its fingerprints
        fp = os.path.join(tdir, "debug", ".fingerprint")
        if os.path.isdir(fp):
            for d in os.listdir(fp):
                if d.startswith("cisco-ai-defense-pickle-fuzzer-"):
                    shutil.rmtree(os.path.join(fp, d), ignore_errors=True)
        env["CARGO_TARGET_DIR"] = tdir
        env["PFZ_UNIT"] = unit
        cmd = ["cargo", "+nightly", "check", "--offline", "--manifest-path", os.path.join(repo, "Cargo.toml")] + cargs
        r = subprocess.run(cmd, env=env, capture_output=True, text=True, cwd=repo)
        logs.append((unit, r.returncode, r.stderr[-4000:]))
        if r.returncode != 0:
            raise RuntimeError("fact export failed for unit %s (the tree must compile):\n%s" % (unit, r.stderr[-3000:]))
        for fn in expect:
            p = os.path.join(outdir, fn)
            if not os.path.exists(p):
                raise RuntimeError("fact export produced no %s (stale cargo cache?)\n%s" % (fn, r.stderr[-2000:]))
    return logs


def facts_dir(repo=REPO):
    """Return the directory with the fact files of the current tree, exporting if needed."""
    os.makedirs(CACHE, exist_ok=True)
    lock = open(os.path.join(CACHE, "lock"), "w")
    fcntl.flock(lock, fcntl.LOCK_EX)
    try:
        dig = tree_digest(repo)
        d = os.path.join(CACHE, "facts", dig)
        ok = os.path.join(d, "OK")
        if not os.path.exists(ok):
            shutil.rmtree(d, ignore_errors=True)
            os.makedirs(d)
            nonce = "%s-%d" % (dig, int(time.time()))
            t0 = time.time()
            _export(repo, d, nonce)
            # assert that the files were written by *this* pass
            for unit, _, expect in UNITS:
                for fn in expect:
                    with open(os.path.join(d, fn)) as fh:
                        head = fh.read(400)
                    if nonce not in head:
                        raise RuntimeError("fact file %s does not carry this run's nonce" % fn)
            with open(ok, "w") as fh:
                json.dump({"nonce": nonce, "export_s": round(time.time() - t0, 1)}, fh)
            # keep the cache small: drop fact sets of other trees (keep the 6 newest)
            root = os.path.join(CACHE, "facts")
            ents = sorted((os.path.getmtime(os.path.join(root, e)), e) for e in os.listdir(root))
            for _, e in ents[:-6]:
                if e != dig:
                    shutil.rmtree(os.path.join(root, e), ignore_errors=True)
        return d
    finally:
        fcntl.flock(lock, fcntl.LOCK_UN)
        lock.close()


_loaded = {}


def load_unit(name, repo=REPO):
    """name in {'lib','bin','pylib'}"""
    fn = {"lib": "pickle_fuzzer-lib-default.json", "bin": "pickle_fuzzer-bin-default.json",
          "pylib": "pickle_fuzzer-lib-pybind.json"}[name]
    d = facts_dir(repo)
    key = (d, fn)
    if key not in _loaded:
        with open(os.path.join(d, fn)) as fh:
            _loaded[key] = json.load(fh)
    return _loaded[key]


if __name__ == "__main__":
    t = time.time()
    d = facts_dir()
    print(d, round(time.time() - t, 1), "s")


def linked_bin(repo=REPO):
    """bin unit with references into the library rewritten to the library's own keys, merged with
    the library bodies (one program: main + everything it calls in the crate)"""
    import copy
    lib = load_unit("lib", repo)
    binu = copy.deepcopy(load_unit("bin", repo))
    dp_body = {b["dp"]: k for k, b in lib["bodies"].items() if "dp" in b}
    dp_adt = {a["dp"]: k for k, a in lib["adts"].items() if "dp" in a}

    def walk(x):
        if isinstance(x, dict):
            if "dp" in x and "path" in x and x["dp"] in dp_body:
                x["path"] = dp_body[x["dp"]]
                x["local"] = True
            if "closure" in x and x.get("dp") in dp_body:
                x["closure"] = dp_body[x["dp"]]
            if "adt_dp" in x and x["adt_dp"] in dp_adt and "adt" in x:
                x["adt"] = dp_adt[x["adt_dp"]]
            for v in x.values():
                walk(v)
        elif isinstance(x, list):
            for v in x:
                walk(v)
    walk(binu["bodies"])
    merged = {"crate": "linked", "kind": "bin+lib", "unit": "linked", "nonce": binu.get("nonce"),
              "bodies": dict(lib["bodies"]), "adts": dict(lib["adts"]), "impls": list(lib["impls"])}
    def fix_local_calls(x):
        if isinstance(x, dict):
            if "path" in x and x.get("path") in binu["bodies"] and ("name" in x or "kind" in x):
                x["path"] = "bin::" + x["path"]
                if "local" in x:
                    x["local"] = True
            for v in x.values():
                fix_local_calls(v)
        elif isinstance(x, list):
            for v in x:
                fix_local_calls(v)
    fix_local_calls(binu["bodies"])
    for k, b in binu["bodies"].items():
        merged["bodies"]["bin::" + k] = b
    # types declared in the binary itself (e.g. a clap wrapper struct around the library's Cli)
    for k, a in binu.get("adts", {}).items():
        if a.get("dp") not in dp_adt and k not in merged["adts"]:
            merged["adts"][k] = a
    # closures of main are referenced by their bin-local key
    def fix_closure(x):
        if isinstance(x, dict):
            if x.get("t") == "closure" and x.get("closure") in binu["bodies"]:
                x["closure"] = "bin::" + x["closure"]
            for v in x.values():
                fix_closure(v)
        elif isinstance(x, list):
            for v in x:
                fix_closure(v)
    for k in binu["bodies"]:
        fix_closure(merged["bodies"]["bin::" + k])
    return merged
