"""Emission terms: flatten the output writes of one leaf into the final byte-part sequence of the
emitted opcode(s), decode opcode bytes, and check argument encodings against the reference
readers of pickletools (R04.b)."""
from values import INT_TYPES, Payload, Sym, apply_escapes, bounds, is_sym, part_len, ty_range


def final_parts(writes):
    """Apply truncations to the write log -> list of parts appended (net) by this leaf.
    Returns (parts, problems)."""
    segs = []  # list of (write index, parts)
    probs = []
    for i, w in enumerate(writes):
        if w[0] == "out":
            segs.append((i, list(w[1])))
        elif w[0] == "truncate":
            wi = w[2]
            if wi is None:
                probs.append("truncate to a length that is not an opcode boundary recorded before the emission: %r" % (w[1],))
                continue
            segs = [(j, p) for (j, p) in segs if j < wi]
        elif w[0] == "patch":
            probs.append("in-place patch of %r bytes at %r" % (w[2], w[1]))
        elif w[0] == "clear":
            segs = []
            probs.append("output cleared")
    parts = []
    for _, p in segs:
        parts.extend(p)
    return parts, probs


def regroup_bytes(parts):
    """consecutive single bytes of one to_le_bytes/to_be_bytes encoding -> one 'int' part"""
    out = []
    i = 0
    while i < len(parts):
        p = parts[i]
        if p[0] == "u8" and is_sym(p[1]) and p[1].op == "byte" and "src" in p[1].attrs and p[1].args[1] == 0 and p[1].attrs["src"][3]:
            val, ty, endian, n = p[1].attrs["src"]
            grp = parts[i:i + n]
            if len(grp) == n and all(q[0] == "u8" and is_sym(q[1]) and q[1].op == "byte" and q[1].attrs.get("src", (None,))[0] is val
                                     and q[1].args[1] == k for k, q in enumerate(grp)):
                out.append(("int", val, ty, endian, 0, n))
                i += n
                continue
        out.append(p)
        i += 1
    return out


def flatten(parts):
    """merge adjacent literals"""
    out = []
    for p in regroup_bytes(list(parts)):
        if p[0] == "lit":
            if not p[1]:
                continue
            if out and out[-1][0] == "lit":
                out[-1] = ("lit", out[-1][1] + p[1])
                continue
        out.append(p)
    return out


class Cursor:
    def __init__(self, parts):
        self.parts = flatten(parts)
        self.i = 0
        self.off = 0  # offset inside a literal part

    def eof(self):
        return self.i >= len(self.parts)

    def peek(self):
        return self.parts[self.i] if self.i < len(self.parts) else None

    def take_byte(self):
        """next single byte: int, Sym, or None if the next part is not byte-sized"""
        p = self.peek()
        if p is None:
            return None
        if p[0] == "lit":
            b = p[1][self.off]
            self.off += 1
            if self.off >= len(p[1]):
                self.i += 1
                self.off = 0
            return b
        if p[0] == "u8":
            self.i += 1
            return p[1]
        return None

    def take_lit(self, n):
        p = self.peek()
        if p is None or p[0] != "lit" or len(p[1]) - self.off < n:
            return None
        b = p[1][self.off:self.off + n]
        self.off += n
        if self.off >= len(p[1]):
            self.i += 1
            self.off = 0
        return b

    def take_part(self):
        p = self.peek()
        if p is None:
            return None
        if p[0] == "lit" and self.off:
            rest = ("lit", p[1][self.off:])
            self.i += 1
            self.off = 0
            return rest
        self.i += 1
        return p

    def rest(self):
        out = []
        while not self.eof():
            out.append(self.take_part())
        return out


def strip_casts(v):
    """peel lossless casts: the value is numerically the inner term"""
    while is_sym(v) and v.op == "cast" and is_sym(v.args[0]) and v.ty in INT_TYPES and v.args[0].ty in INT_TYPES:
        inner = v.args[0]
        tlo, thi = ty_range(v.ty)
        if inner.lo >= tlo and inner.hi <= thi:
            v = inner
        else:
            break
    return v


def take_fixed_int(cur, nbytes, want_endian="le"):
    """read an nbytes little-endian integer: returns (value term or int, type string, problems)"""
    p = cur.peek()
    if p is None:
        return None, None, ["argument missing"]
    if p[0] == "int":
        _, v, ty, endian, lo, hi = p
        if hi - lo == nbytes and lo == 0:
            cur.take_part()
            probs = []
            if endian != want_endian:
                probs.append("byte order %s, reader expects %s" % (endian, want_endian))
            full = 8 if ty == "f64" else INT_TYPES[ty][0] // 8
            if full != nbytes:
                if endian == "le" and lo == 0 and nbytes < full:
                    # low bytes of a wider integer: value modulo 2^(8n)
                    return Sym("low_bytes", (v,) if is_sym(v) else (), "u%d" % (8 * nbytes)) if is_sym(v) else (v & ((1 << (8 * nbytes)) - 1)), "u%d" % (8 * nbytes), probs
                probs.append("integer of %d bytes where the reader expects %d" % (full, nbytes))
            return v, ty, probs
        if lo == 0 and hi - lo > nbytes:
            return None, None, ["integer part of %d bytes where the reader expects %d" % (hi - lo, nbytes)]
        # sliced integer (e.g. bytes[..2] of a wider to_le_bytes)
        if endian == want_endian == "le" and lo == 0 and hi == nbytes:
            cur.take_part()
            return (Sym("low_bytes", (v,), "u%d" % (8 * nbytes)) if is_sym(v) else v & ((1 << (8 * nbytes)) - 1)), "u%d" % (8 * nbytes), []
        return None, None, ["unsupported integer slice"]
    b = cur.take_lit(nbytes)
    if b is not None:
        return int.from_bytes(b, "little" if want_endian == "le" else "big"), "lit", []
    if nbytes == 1:
        v = cur.take_byte()
        if v is not None:
            return v, "u8", []
    return None, None, ["argument is not a %d-byte integer: %r" % (nbytes, p)]


PRINTABLE = set(range(32, 127))


def payload_bytes_len(parts):
    """(lo, hi) total byte length of parts; hi None = unbounded"""
    lo = hi = 0
    for p in parts:
        l, h = part_len(p)
        lo += l
        hi = None if (hi is None or h is None) else hi + h
    return lo, hi


def same_len_term(len_term, parts):
    """does `len_term` denote exactly the byte length of `parts`?"""
    lt = strip_casts(len_term)
    lo, hi = payload_bytes_len(parts)
    if isinstance(lt, int):
        return lo == hi == lt
    if is_sym(lt) and lt.op == "len" and "of" in lt.attrs:
        src = lt.attrs["of"]
        return len(src.parts) == len(parts) and all(a is b or a == b for a, b in zip(src.parts, parts))
    if is_sym(lt) and len(parts) == 1 and parts[0][0] == "pay" and not parts[0][1].escapes:
        pl = strip_casts(parts[0][1].len)
        return pl is lt or (is_sym(pl) and is_sym(lt) and pl.key() == lt.key())
    return False


def charset_of_parts(parts):
    cs = set()
    for p in parts:
        if p[0] == "lit":
            cs |= set(p[1])
        elif p[0] == "pay":
            q = p[1]
            if q.escapes:
                for c in q.charset:
                    cs |= set(apply_escapes(bytes([c]) if c < 256 else chr(c).encode(), q.escapes))
            else:
                for c in q.charset:
                    cs |= set(bytes([c]) if c < 256 else chr(c).encode())
        elif p[0] == "u8":
            v = p[1]
            if is_sym(v) and "charset" in v.attrs:
                cs |= set(v.attrs["charset"])
            else:
                lo, hi = bounds(v)
                cs |= set(range(lo, hi + 1))
        elif p[0] == "disp":
            cs |= set(b"0123456789-+.eEinfNa")
        elif p[0] == "int":
            cs |= set(range(256))
    return cs


def check_line(parts, kind):
    """parts up to and including the terminating LF of a newline-terminated argument.
    Returns (consumed_parts, rest_parts, problems).  kind in decimalnl_short, decimalnl_long,
    floatnl, stringnl, stringnl_noescape, unicodestringnl"""
    # split at the first literal LF; payloads before it must not be able to contain LF
    line = []
    rest = None
    parts = flatten(parts)
    for idx, p in enumerate(parts):
        if p[0] == "lit" and b"\n" in p[1]:
            k = p[1].index(b"\n")
            if p[1][:k]:
                line.append(("lit", p[1][:k]))
            rest = ([("lit", p[1][k + 1:])] if p[1][k + 1:] else []) + parts[idx + 1:]
            break
        line.append(p)
    if rest is None:
        return None, None, ["no terminating newline"]
    probs = []
    for p in line:
        if p[0] in ("pay", "u8"):
            if 10 in charset_of_parts([p]):
                probs.append("payload may contain a raw newline inside a newline-terminated argument")
    if kind in ("decimalnl_short", "decimalnl_long"):
        body = list(line)
        if kind == "decimalnl_long":
            if body and body[-1][0] == "lit" and body[-1][1].endswith(b"L"):
                body[-1] = ("lit", body[-1][1][:-1])
                if not body[-1][1]:
                    body.pop()
            # pickletools accepts a missing L as well
        if len(body) == 1 and body[0][0] == "disp" and body[0][2] in INT_TYPES:
            pass
        elif len(body) == 1 and body[0][0] == "lit":
            s = body[0][1]
            if kind == "decimalnl_short" and s in (b"00", b"01"):
                pass
            else:
                try:
                    int(s.decode())
                except Exception:
                    probs.append("not a decimal literal: %r" % s)
        else:
            probs.append("not a decimal literal: %r" % (body,))
    elif kind == "floatnl":
        if len(line) == 1 and line[0][0] == "disp" and line[0][2] in ("f64", "f32"):
            pass
        elif len(line) == 1 and line[0][0] == "disp" and line[0][2] in INT_TYPES:
            pass
        elif len(line) == 1 and line[0][0] == "lit":
            try:
                float(line[0][1].decode())
            except Exception:
                probs.append("not a float literal: %r" % line[0][1])
        else:
            probs.append("not a float literal: %r" % (line,))
    elif kind == "stringnl":
        probs += check_quoted(line)
    elif kind in ("stringnl_noescape", "stringnl_noescape_pair"):
        pass  # any bytes without LF
    elif kind == "unicodestringnl":
        probs += check_raw_unicode(line)
    return line, rest, probs


def check_quoted(line):
    """pickletools.read_stringnl: strip, matching quotes at both ends, then codecs.escape_decode"""
    probs = []
    if not line or line[0][0] != "lit" or line[0][1][:1] not in (b"'", b'"'):
        return ["STRING argument does not start with a quote"]
    q = line[0][1][:1]
    if line[-1][0] != "lit" or not line[-1][1].endswith(q) or (len(line) == 1 and len(line[0][1]) < 2):
        return ["STRING argument does not end with the opening quote"]
    inner = list(line)
    inner[0] = ("lit", inner[0][1][1:])
    inner[-1] = ("lit", inner[-1][1][:-1]) if len(inner) > 1 or True else inner[-1]
    if len(line) == 1:
        inner = [("lit", line[0][1][1:-1])]
    for p in inner:
        if p[0] == "lit":
            probs += escape_units_ok(p[1], q, "literal")
        elif p[0] == "pay":
            pl = p[1]
            for c in sorted(pl.charset):
                raw = bytes([c]) if c < 256 else chr(c).encode()
                if c > 127:
                    probs.append("non-ASCII character in a STRING payload")
                    break
                exp = apply_escapes(raw, pl.escapes)
                pr = escape_units_ok(exp, q, "character %r after the escape chain -> %r" % (raw, exp))
                if pr:
                    probs += pr
                    break
        elif p[0] == "disp":
            pass
        else:
            probs.append("unsupported part inside a quoted string: %r" % (p[0],))
    return probs


def escape_units_ok(b, quote, what):
    """b must be a concatenation of complete escape_decode units without a bare quote/LF"""
    i = 0
    while i < len(b):
        c = b[i:i + 1]
        if c == b"\\":
            if i + 1 >= len(b):
                return ["dangling backslash in %s" % what]
            n = b[i + 1:i + 2]
            if n in b"\\'\"abfnrtv\n":
                i += 2
            elif n in b"01234567":
                i += 2
            elif n == b"x":
                if i + 3 >= len(b) or not all(ch in b"0123456789abcdefABCDEF" for ch in b[i + 2:i + 4]):
                    return ["invalid \\x escape in %s" % what]
                i += 4
            else:
                i += 2  # escape_decode keeps unknown escapes verbatim
            continue
        if c == quote:
            return ["unescaped quote in %s" % what]
        if c == b"\n":
            return ["raw newline in %s" % what]
        i += 1
    return []


def check_raw_unicode(line):
    """UNICODE: raw-unicode-escape decoding: every backslash followed by u/U must form a valid
    escape; the emitter's defence is doubling backslashes"""
    probs = []
    for p in line:
        if p[0] == "lit":
            b = p[1]
        elif p[0] == "pay":
            pl = p[1]
            for c in sorted(pl.charset):
                raw = bytes([c]) if c < 256 else chr(c).encode()
                exp = apply_escapes(raw, pl.escapes)
                if raw == b"\\" and exp.count(b"\\") % 2 != 0:
                    probs.append("backslash is not escaped in a UNICODE payload (\\u / \\U would start an escape)")
            continue
        else:
            continue
    return probs


# ----------------------------------------------------------------------------------------
FIXED = {"uint1": 1, "uint2": 2, "uint4": 4, "uint8": 8, "int4": 4}
COUNTED = {"string1": ("uint1", 1, "bytes"), "bytes1": ("uint1", 1, "bytes"), "unicodestring1": ("uint1", 1, "utf8"),
           "string4": ("int4", 4, "bytes"), "bytes4": ("uint4", 4, "bytes"), "unicodestring4": ("uint4", 4, "utf8"),
           "bytes8": ("uint8", 8, "bytes"), "unicodestring8": ("uint8", 8, "utf8"), "bytearray8": ("uint8", 8, "bytes")}


def int_bounds(v, ty):
    if isinstance(v, int):
        return v, v
    if is_sym(v):
        return v.lo, v.hi
    return None, None


def decode_one(cur, spec):
    """decode one opcode at the cursor.  Returns (row or None, value-info dict, problems)."""
    b = cur.take_byte()
    if b is None:
        return None, {}, ["opcode byte is not a single byte part: %r" % (cur.peek(),)]
    if not isinstance(b, int):
        return None, {}, ["opcode byte is not a constant: %r" % (b,)]
    row = spec.by_code.get(b)
    if row is None:
        return None, {}, ["unknown opcode byte 0x%02x" % b]
    arg = row["arg"]
    info = {}
    probs = []
    if arg is None:
        return row, info, probs
    if arg in FIXED:
        v, ty, pr = take_fixed_int(cur, FIXED[arg])
        probs += pr
        info["value"] = v
        info["ty"] = ty
        if arg == "int4" and v is not None:
            lo, hi = int_bounds(strip_casts(v), ty)
            info["int4_range"] = (lo, hi)
        return row, info, probs
    if arg == "float8":
        p = cur.peek()
        if p is not None and p[0] == "int" and p[2] in ("f64",) and p[5] - p[4] == 8:
            cur.take_part()
            if p[3] != "be":
                probs.append("BINFLOAT argument written %s-endian, reader expects big-endian" % p[3])
        elif cur.take_lit(8) is None:
            probs.append("float8 argument is not an 8-byte float: %r" % (p,))
        return row, info, probs
    if arg in COUNTED:
        lk, n, enc = COUNTED[arg]
        v, ty, pr = take_fixed_int(cur, n)
        probs += pr
        payload = cur.rest()
        if v is not None:
            if not same_len_term(v, payload):
                probs.append("length prefix %r is not the byte length of the payload %r" % (v, payload))
            lo, hi = payload_bytes_len(payload)
            cap = (1 << (8 * n)) - 1 if lk != "int4" else (1 << 31) - 1
            if hi is None or hi > cap:
                probs.append("payload length (up to %r) may not fit the %d-byte length prefix" % (hi, n))
            sv = v
            if is_sym(sv) and sv.op == "cast":
                inner = sv.args[0]
                tlo, thi = ty_range(sv.ty)
                if is_sym(inner) and (inner.lo < tlo or inner.hi > thi):
                    probs.append("length %r is truncated by the cast to %s" % (inner, sv.ty))
        if enc == "utf8":
            for p in payload:
                if p[0] == "pay" and p[1].kind != "str" and any(c > 127 for c in p[1].charset):
                    probs.append("unicode payload is not known to be valid UTF-8")
                if p[0] in ("u8", "int"):
                    probs.append("unicode payload built from raw bytes")
        info["payload"] = payload
        return row, info, probs
    if arg in ("long1", "long4"):
        n = 1 if arg == "long1" else 4
        v, ty, pr = take_fixed_int(cur, n)
        probs += pr
        payload = cur.rest()
        lo, hi = payload_bytes_len(payload)
        if not (isinstance(v, int) and lo == hi == v):
            probs.append("%s size field %r does not equal the number of value bytes (%r..%r)" % (arg, v, lo, hi))
        for p in payload:
            if p[0] == "int" and p[3] != "le":
                probs.append("%s value bytes are not little-endian" % arg)
        return row, info, probs
    if arg == "stringnl_noescape_pair":
        rest = cur.rest()
        l1, rest, pr = check_line(rest, "stringnl_noescape")
        probs += pr
        if rest is not None:
            l2, rest2, pr2 = check_line(rest, "stringnl_noescape")
            probs += pr2
            if rest2:
                probs.append("bytes after the second line: %r" % (rest2,))
        return row, info, probs
    if arg in ("stringnl", "stringnl_noescape", "decimalnl_short", "decimalnl_long", "floatnl", "unicodestringnl"):
        rest = cur.rest()
        line, rest2, pr = check_line(rest, arg)
        probs += pr
        if rest2:
            probs.append("bytes after the newline-terminated argument: %r" % (rest2,))
        if line is not None:
            info["line"] = line
            for p in line:
                if p[0] == "disp":
                    info["value"] = p[1]
                    info["ty"] = p[2]
        return row, info, probs
    return row, info, ["no reader model for argument type %s" % arg]


def decode_stream(parts, spec):
    """decode a whole sequence; returns list of (row, info, problems)"""
    cur = Cursor(parts)
    out = []
    guard = 0
    while not cur.eof():
        row, info, probs = decode_one(cur, spec)
        out.append((row, info, probs))
        guard += 1
        if row is None or guard > 10000:
            break
    return out
