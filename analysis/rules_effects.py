"""C07: generation is a pure function of configuration and entropy input (whole-program effect analysis)."""
import re

import callgraph as CG
import cfg
from framework import Result
from values import Unanalysable

# external callee families that are deterministic functions of their arguments (classified once, by reading)
PURE_PREFIXES = [
    "core::", "std::vec::", "std::string::", "std::str::", "std::slice::", "std::iter::", "std::option::", "std::result::",
    "std::fmt::", "std::rc::", "std::cell::", "std::cmp::", "std::ops::", "std::clone::", "std::convert::", "std::boxed::",
    "std::borrow::", "std::array::", "std::hint::", "std::mem::", "std::default::", "std::hash::", "std::num::", "std::char::",
    "std::rt::panic_fmt", "std::sync::OnceLock::", "std::collections::HashMap::", "std::collections::HashSet::",
    "std::collections::hash_map::", "std::collections::hash_set::", "std::collections::BTreeMap::", "std::collections::BTreeSet::",
    "std::collections::btree_map::", "std::collections::btree_set::", "std::collections::VecDeque::", "alloc::", "phf::", "color_eyre::eyre::", "eyre::",
    "rand::Rng::", "rand::RngCore::", "rand::TryRngCore::", "rand::SeedableRng::seed_from_u64", "rand_chacha::", "rand_core::",
    "arbitrary::Unstructured::", "arbitrary::Arbitrary::", "<", "std::intrinsics::", "std::ptr::", "std::marker::", "std::any::",
    "std::f64::", "std::panicking::", "std::process::abort",
    # writing into an in-memory buffer / any writer is output, not a source of nondeterminism (reads are not listed)
    "std::io::Cursor::", "std::io::cursor::", "std::io::Write::", "std::io::impls::",
]
# nondeterminism sources: never allowed on a path from generate (seed present) / generate_from_arbitrary
DENY = [
    (r"^std::time::", "wall clock"), (r"^std::env::", "process environment"), (r"^std::process::id", "process id"),
    (r"^std::thread::", "thread identity / scheduling"), (r"rand::rng$|rand::thread_rng|rand::rngs::OsRng|rand::random$|::from_os_rng$|::from_entropy$|^getrandom::", "OS randomness"),
    (r"RandomState::new", "per-process hash seed"), (r"^std::fs::|^std::net::|^std::io::stdin", "I/O input"),
    (r"^std::sync::atomic|^std::sync::Mutex|^std::sync::RwLock|thread_local", "shared mutable state"),
    (r"^std::alloc::|::as_ptr$|::into_raw$|addr$", "allocation addresses"),
]
HASH_ITER = re.compile(r"(HashMap|HashSet|hash_map|hash_set)")
ITER_METHODS = ("iter", "iter_mut", "keys", "values", "values_mut", "into_iter", "drain", "retain", "into_keys", "into_values", "next", "extract_if")


def is_pure(path):
    return any(path.startswith(p) for p in PURE_PREFIXES)


def deny_reason(path):
    for rx, why in DENY:
        if re.search(rx, path):
            return why
    return None


def hash_iteration(term):
    """does this call start an iteration over a HashMap/HashSet?"""
    f = term["f"]
    p = cfg.callee_path(term) or ""
    name = f.get("name", "")
    targs = " ".join(f.get("args") or []) + " " + " ".join((f.get("res") or {}).get("args") or [])
    if name in ("keys", "values", "iter", "iter_mut", "drain", "retain", "values_mut", "into_keys", "into_values") and HASH_ITER.search(p):
        return True
    if name == "into_iter" and HASH_ITER.search(p + " " + (f.get("impl_self") or "") + " " + ((f.get("res") or {}).get("impl_self") or "")):
        return True
    if name == "into_iter" and re.search(r"^&?'?\w* ?(mut )?std::collections::Hash(Map|Set)", (f.get("args") or [""])[0]):
        return True
    return False


def rule_C07(env):
    res = Result("C07", "other")
    prog = env.prog
    cg = CG.CallGraph(prog)
    k_gen = prog.find("generator::Generator::generate")
    k_arb = prog.find("generator::Generator::generate_from_arbitrary")
    # configuration reaches generation through the constructors and builder methods: they are roots too
    cfg_roots = sorted(k for k in prog.bodies if re.match(r"generator::Generator::(with_\w+|new|reset)$", k)
                       or k.endswith("generator::Generator as std::default::Default>::default")
                       or re.match(r"mutators::MutatorKind::(create|all_mutators)$", k))
    reach = cg.reachable([k_gen, k_arb] + cfg_roots)
    ncalls = 0
    nhash = 0
    samples = []
    unclassified = {}
    for caller, path, term in cg.external_calls(reach):
        ncalls += 1
        res.count("calls")
        why = deny_reason(path or "")
        if why:
            # the only accepted site: from_os_rng on the seed == None edge of generate()
            if caller == k_gen and path.endswith("::from_os_rng") and os_rng_only_without_seed(prog, k_gen):
                continue
            if path.endswith("::as_ptr") and caller.endswith("StackObjectRef as std::hash::Hash>::hash"):
                continue  # pointer identity only feeds hashing; rule (3) below forbids walking such containers
            res.add("deny", "%s/%s" % (caller.split("::")[-1].strip(">"), path.split("::")[-1]),
                    "%s calls %s: output would depend on %s" % (caller, path, why), env.loc(caller))
            continue
        if not is_pure(path or ""):
            unclassified.setdefault(path, caller)
    for path, caller in sorted(unclassified.items()):
        res.add("classify", "external/%s" % re.sub(r"[^A-Za-z0-9_:]+", "_", path)[:80],
                "external callee %s (called from %s) is not classified as deterministic: classify it once in rules_effects.PURE_PREFIXES/DENY" % (path, caller), env.loc(caller))
    # (2) hash-container iteration must be order-insensitive: keys() ... sort before any indexing
    for k in sorted(reach):
        body = prog.bodies[k]
        calls = cfg.calls_in(body)
        its = [(i, t) for i, t in calls if hash_iteration(t)]
        if not its:
            continue
        succ = cfg.successors(body)
        dom = cfg.dominators(succ)
        sorts = [i for i, t in calls if (cfg.callee_path(t) or "").endswith(("::sort_unstable", "::sort", "::sort_unstable_by_key", "::sort_by_key"))]
        # select_nth_unstable(rank) also fixes the element of that rank (for distinct keys), provided only the middle element of
        # its result is used: the two partitions around it stay in an order that depends on the input order
        for j, t2 in calls:
            if (cfg.callee_path(t2) or "").endswith(("::select_nth_unstable", "::select_nth_unstable_by_key")) and t2.get("dest"):
                dl = t2["dest"]["l"]
                parts_used = []

                def see(d, dl=dl, parts_used=parts_used):
                    if d.get("l") == dl and isinstance(d.get("p"), list) and d["p"] and isinstance(d["p"][0], dict) and d["p"][0].get("f") in (0, 2):
                        parts_used.append(d["p"][0]["f"])
                CG.walk_json(body, see)
                if not parts_used:
                    sorts.append(j)
        for i, t in its:
            nhash += 1
            res.count("hash-iter")
            after = cfg.reachable_from(succ, i)
            # consumers through which the iteration order becomes observable (collecting into a sequence,
            # element-wise processing, indexing, choosing); pure aggregations (len/count/any/all/contains/sum/min/max) are not
            ORDER_SENSITIVE = ("index", "index_mut", "get", "first", "last", "next", "nth", "position", "find", "collect", "for_each", "extend",
                               "fold", "into_iter", "unzip", "last_mut", "first_mut", "push", "extend_from_slice", "from_iter")
            uses = [j for j, u in calls if j in after and j != i and (u["f"].get("name") in ORDER_SENSITIVE
                                                                      or (cfg.callee_path(u) or "").endswith(("gen_range", "choose_index")))]
            # a use between the iteration and the sort is the collecting step itself (keys().copied().collect() then sort):
            # it is harmless iff the sort dominates every *later* order-sensitive use
            def before_sort(j, s):
                return j in dom.get(s, ())   # j dominates the sort: it happens on the way to it
            ok_sorted = [s for s in sorts if i in dom.get(s, ()) and all((s in dom.get(j, ())) or before_sort(j, s) for j in uses if j in dom and j != s)]
            # a pure membership/count use (no indexing at all) is order-insensitive as well
            only_agg = not uses
            if not ok_sorted and not only_agg:
                res.add("hash-order", "%s/%s" % (k.split("::")[-1], t["f"].get("name")),
                        "%s iterates a hash container (%s) and the elements are used (indexing/choice) without a dominating sort: iteration order differs between processes" % (
                            k, cfg.callee_path(t)), env.loc(k))
            elif len(samples) < 4:
                samples.append({"body": k, "iteration": cfg.callee_path(t), "made_order_insensitive_by": "sort dominates every indexed use" if ok_sorted else "no indexed use"})
    # (3) pointer -> integer
    for k in sorted(reach):
        body = prog.bodies[k]
        for blk in CG.iter_blocks(body):
            for st in blk["s"]:
                if st["k"] == "assign" and st["rv"]["k"] == "cast":
                    ck = st["rv"]["ck"]
                    frm, to = st["rv"].get("from", ""), st["rv"].get("ty", "")
                    if ck == "PointerExposeProvenance" or (ck == "Transmute" and ("*" in frm or "&" in frm or "NonNull" in frm) and to in ("usize", "u64", "isize")):
                        res.count("ptr2int")
                        if not k.endswith("StackObjectRef as std::hash::Hash>::hash"):
                            res.add("ptr2int", "%s" % k.split("::")[-1], "%s converts a pointer to an integer (%s -> %s): addresses differ between runs" % (k, frm, to), env.loc(k))
    # statics
    used = set()
    for k in reach:
        used |= cg.statics.get(k, set())
    for s in sorted(used):
        res.count("statics")
        if s.startswith("thread_local:"):
            res.add("static", "tls/%s" % s.split("::")[-1], "generation reads thread-local %s" % s)
            continue
        key = next((b for b in prog.bodies if prog.bodies[b]["kind"] == "static" and (b == s or s.endswith(b) or b.endswith(s))), None)
        ty = prog.bodies[key]["ret_ty"] if key else "?"
        if "OnceLock" in ty:
            # initialiser must be a constant function (include_str! + lines): its closure may only call pure callees
            init = [c for c in reach if c.startswith("generator::emission::load_stdlib_complete")]
            bad = [p for c in init for (_, p, _) in cg.external_calls([c]) if deny_reason(p or "") or not is_pure(p or "")]
            if bad:
                res.add("static", "oncelock-init/%s" % s.split("::")[-1], "OnceLock %s is initialised from non-constant data (%s)" % (s, bad[0]))
        elif "phf::Map" in ty or "&" in ty or ty.startswith("["):
            pass  # immutable table
        elif any(x in ty for x in ("Cell", "Mutex", "RwLock", "Atomic")):
            res.add("static", "mutable/%s" % s.split("::")[-1], "generation uses static %s: %s with interior mutability" % (s, ty))
    # lazily initialised process-wide values: the initialiser must not depend on the first caller
    for k in sorted(reach):
        body = prog.bodies[k]
        for i, term in cfg.calls_in(body):
            p = cfg.callee_path(term) or ""
            if re.search(r"(OnceLock::<T>::get_or_init|OnceCell::<T>::get_or_init|LazyLock::<T, F>::force|OnceLock::<T>::set|OnceLock::<T>::get_or_try_init)$", p):
                res.count("lazy-init")
                # the closure handed over: find its aggregate in this body
                caps = None
                ckey = None
                for a in term["args"][1:]:
                    pl = a.get("mv") or a.get("cp")
                    if not pl:
                        continue
                    for blk in CG.iter_blocks(body):
                        for st in blk["s"]:
                            if st["k"] == "assign" and st["pl"]["l"] == pl["l"] and not st["pl"]["p"] and st["rv"]["k"] == "agg" and st["rv"]["ak"].get("t") == "closure":
                                caps = len(st["rv"]["ops"])
                                ckey = st["rv"]["ak"]["closure"]
                if caps is None:
                    res.add("lazy-init", "%s/unknown-initialiser" % k.split("::")[-1], "%s initialises a process-wide lazy value with an initialiser that is not a local closure" % k, env.loc(k))
                    continue
                if caps:
                    res.add("lazy-init", "%s/captures" % k.split("::")[-1],
                            "%s initialises a process-wide lazy value from a closure that captures %d value(s) of the calling generator: whoever calls first decides the content "
                            "for every later generator in the process" % (k, caps), env.loc(k))
                sub = cg.reachable([ckey])
                bad = [pp for c in sub for (_, pp, _) in cg.external_calls([c]) if deny_reason(pp or "") or not is_pure(pp or "")]
                if bad:
                    res.add("lazy-init", "%s/impure-initialiser" % k.split("::")[-1], "lazy initialiser in %s calls %s" % (k, bad[0]), env.loc(k))
    # bin: batch mode and the protocol choice
    n_bin = bin_rules(env, res)
    res.floor("calls", 100, "external call sites reachable from generate*")
    # vacuity guard: while a hash container is part of the generator state, its iteration sites must have been seen
    hash_fields = [(an, f["name"]) for an, a in prog.adts.items() for v in a.get("variants", []) for f in v.get("fields", [])
                   if re.search(r"collections::Hash(Map|Set)<", f.get("ty", "")) and re.search(r"state::State$|generator::Generator$", str(an))]
    if hash_fields:
        res.floor("hash-iter", 1, "hash-container iterations (State has hash-typed fields %s)" % (hash_fields[:3],))
    res.floor("lazy-init", 1, "lazy statics (STDLIB_MODULES)")
    res.coverage = {"explanation": "whole-program effect analysis on the resolved call graph: every external callee reachable from Generator::generate / "
                    "generate_from_arbitrary (incl. closures, fn items and every impl behind dyn Mutator) is either on the deny list (time, env, pid, thread, OS RNG, "
                    "hash seeds, addresses, I/O, shared mutable state), or classified deterministic, or reported; hash-container iterations must be followed by a dominating "
                    "sort before any indexed use; pointer->integer conversions only inside StackObjectRef::hash; statics are immutable tables or a OnceLock with a constant initialiser.",
                    "evaluations": ncalls, "distinct_nontrivial": max(2, len(reach)), "reachable_bodies": len(reach), "external_call_sites": ncalls,
                    "hash_iterations": nhash, "bin_sites": n_bin, "samples": samples or [{"note": "no hash iteration"}]}
    res.assumptions = ["rand_chacha, arbitrary and phf are deterministic functions of their inputs", "rayon only distributes independent closure calls (no shared state: checked on the closure)"]
    return res


def os_rng_only_without_seed(prog, k_gen):
    """from_os_rng in generate() is reachable only through the `seed == None` edge"""
    body = prog.bodies[k_gen]
    succ = cfg.successors(body)
    os_blocks = [i for i, t in cfg.calls_in(body) if (cfg.callee_path(t) or "").endswith("::from_os_rng")]
    for i, b in enumerate(body["blocks"]):
        t = b["t"]
        if t["k"] == "switch" and not b["cleanup"]:
            # the switch on discriminant(self.seed)
            is_seed = any(st["k"] == "assign" and st["rv"]["k"] == "discr" and any(isinstance(p, dict) and p.get("n") == "seed" for p in st["rv"]["pl"]["p"])
                          for st in b["s"])
            if is_seed:
                some_targets = [bb for v, bb in t["targets"] if v == 1]
                for st in some_targets:
                    if set(os_blocks) & cfg.reachable_from(succ, st):
                        return False
                return True
    return False


def bin_rules(env, res):
    """main(): OS randomness only when neither --protocol nor --seed is given; no shared state in the batch closure"""
    try:
        binp = env.unit("bin")
    except Exception as e:
        res.add("bin", "anchor", "bin unit missing: %s" % e)
        return 0
    cg = CG.CallGraph(binp)
    roots = [k for k in binp.bodies if k == "main" or k.startswith("main::")]
    n = 0
    for k in roots:
        body = binp.bodies[k]
        succ = cfg.successors(body)
        for i, t in cfg.calls_in(body):
            p = cfg.callee_path(t) or ""
            why = deny_reason(p)
            if not why:
                continue
            n += 1
            res.count("bin-sites")
            if re.search(r"rand::rng$", p):
                # must be reachable only when both discriminants (protocol, seed) are None
                bad = False
                for j, b in enumerate(body["blocks"]):
                    tt = b["t"]
                    if tt["k"] == "switch" and not b["cleanup"] and any(st["k"] == "assign" and st["rv"]["k"] == "discr" for st in b["s"]):
                        names = [p2.get("n") for st in b["s"] if st["k"] == "assign" and st["rv"]["k"] == "discr" for p2 in st["rv"]["pl"]["p"] if isinstance(p2, dict)]
                        locs = [body["locals"][st["rv"]["pl"]["l"]].get("name") for st in b["s"] if st["k"] == "assign" and st["rv"]["k"] == "discr"]
                        tag = " ".join(str(x) for x in names + locs)
                        if "seed" in tag or "protocol" in tag or "proto" in tag:
                            for v, bb in tt["targets"]:
                                if v == 1 and i in cfg.reachable_from(succ, bb):
                                    bad = True
                if bad:
                    res.add("bin", "%s/os-rng-with-seed" % k.replace("::", "_"), "%s draws from the OS RNG on a path where --seed or --protocol was given" % k)
                continue
            if p.startswith("std::fs::") or p.startswith("std::path::"):
                continue  # output side only
            if re.search(r"^std::env::|^std::process::", p):
                continue  # argument parsing / exit status
            res.add("bin", "%s/%s" % (k.replace("::", "_"), p.split("::")[-1]), "%s calls %s (%s)" % (k, p, why))
        stat = cg.statics.get(k, set())
        for s in stat:
            res.add("bin", "%s/static" % k.replace("::", "_"), "%s uses static %s" % (k, s))
    return n
