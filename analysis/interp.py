"""PVM-AI: a path-sensitive abstract interpreter over exported MIR (see DESIGN.md 3.3).

No code of the repository is executed: MIR statements are evaluated over the abstract
domain of values.py; non-determinism (entropy, unknown pre-state, mutator results) is
resolved by a *decision script*; the explorer enumerates all scripts depth-first by
re-execution, so interpreter state is never copied.
"""
import os
import re
import time
import sys

from values import (Agg, Box_, Bytes, FnItem, INT_TYPES, Opaque, PathEnd, Payload, Ref, Sym, UNINIT,
                    Unanalysable, bounds, f32_from_bits, f64_from_bits, is_sym, none, ok, err, some,
                    ty_range, unit, wrap)

sys.setrecursionlimit(20000)


# ----------------------------------------------------------------------------------------
class Program:
    """Index over one exported compilation unit."""

    def __init__(self, facts):
        self.facts = facts
        self.bodies = facts["bodies"]
        self.adts = facts["adts"]
        self.impls = facts["impls"]
        self._loops = {}

    def find(self, suffix, kind=None):
        """unique body whose key ends with `suffix` (fail closed otherwise)"""
        hits = [k for k in self.bodies if k.endswith(suffix) and (k == suffix or k[-len(suffix) - 1] in ":> ")]
        if kind:
            hits = [k for k in hits if self.bodies[k]["kind"] == kind]
        if len(hits) != 1:
            raise Unanalysable("anchor %r matches %d bodies %r" % (suffix, len(hits), hits[:4]))
        return hits[0]

    def find_all(self, pred):
        return [k for k in self.bodies if pred(k, self.bodies[k])]

    def adt_of(self, suffix):
        hits = [k for k in self.adts if k == suffix or k.endswith("::" + suffix)]
        if len(hits) != 1:
            raise Unanalysable("ADT anchor %r matches %r" % (suffix, hits))
        return hits[0]

    def variant_names(self, adt):
        return [v["name"] for v in self.adts[adt]["variants"]]

    def variant_index(self, adt, name):
        for v in self.adts[adt]["variants"]:
            if v["name"] == name:
                return v["idx"]
        raise Unanalysable("no variant %s in %s" % (name, adt))

    def enum_value(self, adt, name):
        a = self.adts[adt]
        for v in a["variants"]:
            if v["name"] == name:
                return Agg(adt, v["idx"], [], v["discr"] if v["discr"] is not None else v["idx"], name)
        raise Unanalysable("no variant %s in %s" % (name, adt))

    def impls_of(self, trait_suffix):
        return [i for i in self.impls if i["trait"] and (i["trait"] == trait_suffix or i["trait"].endswith("::" + trait_suffix))]

    def loc(self, key):
        sp = self.bodies[key]["span"]
        return "%s:%s" % (sp["file"], sp["line"])

    # ---- loop structure (for havocking loop-carried scalars) ----
    def loops(self, key):
        if key in self._loops:
            return self._loops[key]
        body = self.bodies[key]
        blocks = body["blocks"]
        n = len(blocks)
        succ = [[] for _ in range(n)]
        for i, b in enumerate(blocks):
            if b["cleanup"]:
                continue
            t = b["t"]
            k = t["k"]
            if k == "goto":
                succ[i] = [t["t"]]
            elif k == "switch":
                succ[i] = [x[1] for x in t["targets"]] + [t["otherwise"]]
            elif k in ("drop", "assert"):
                succ[i] = [t["t"]]
            elif k == "call":
                succ[i] = [t["t"]] if t["t"] is not None else []
        # iterative DFS for back edges
        color = [0] * n
        back = []
        stack = [(0, iter(succ[0]))]
        color[0] = 1
        while stack:
            u, it = stack[-1]
            adv = False
            for v in it:
                if color[v] == 0:
                    color[v] = 1
                    stack.append((v, iter(succ[v])))
                    adv = True
                    break
                elif color[v] == 1:
                    back.append((u, v))
            if not adv:
                color[u] = 2
                stack.pop()
        pred = [[] for _ in range(n)]
        for u in range(n):
            for v in succ[u]:
                pred[v].append(u)
        info = {}
        for (u, h) in back:
            body_nodes = {h, u}
            work = [u]
            while work:
                x = work.pop()
                if x == h:
                    continue
                for p in pred[x]:
                    if p not in body_nodes:
                        body_nodes.add(p)
                        work.append(p)
            ent = info.setdefault(h, {"nodes": set(), "latches": set(), "havoc": set()})
            ent["nodes"] |= body_nodes
            ent["latches"].add(u)
        for h, ent in info.items():
            for bi in ent["nodes"]:
                b = blocks[bi]
                for st in b["s"]:
                    if st["k"] == "assign" and not st["pl"]["p"]:
                        l = st["pl"]["l"]
                        ld = body["locals"][l]
                        if "name" in ld and ld["ty"] in INT_TYPES and ld["ty"] != "bool":
                            ent["havoc"].add(l)
        self._loops[key] = info
        return info


# ----------------------------------------------------------------------------------------
class Run:
    """One execution under a decision script; collects events, atoms, panics."""

    def __init__(self, script=()):
        self.script = list(script)
        self.pos = 0
        self.arity = []
        self.labels = []
        self.events = []
        self.atoms = {}  # structural key -> bool
        self.atom_log = []
        self.panics = []
        self.notes = []
        self.steps = 0

    def choose(self, n, label=""):
        if n <= 0:
            raise Unanalysable("empty choice " + label)
        if n == 1:
            return 0
        if self.pos < len(self.script):
            c = self.script[self.pos]
        else:
            c = 0
            self.script.append(0)
        if len(self.arity) <= self.pos:
            self.arity.append(n)
            self.labels.append(label)
        else:
            self.arity[self.pos] = n
            self.labels[self.pos] = label
        self.pos += 1
        if c >= n:
            raise Unanalysable("decision script out of range (non-deterministic re-execution) at " + label)
        return c

    def event(self, *ev):
        self.events.append(ev)

    def next_script(self):
        """DFS successor of the executed script, or None when exhausted."""
        s = self.script[:self.pos]
        ar = self.arity[:self.pos]
        while s:
            if s[-1] + 1 < ar[-1]:
                s[-1] += 1
                return s
            s.pop()
            ar.pop()
        return None


EXPLORE_BUDGET_S = float(os.environ.get("PFZ_EXPLORE_BUDGET", "300"))
_TIMEOUTS = [0]


def explore(fn, max_runs=200000):
    """Run `fn(run)` for every decision script.  Yields (run, result|exception).
    One exploration (one function on one abstract input) that does not finish within the budget fails closed: in practice this is a
    data-dependent loop over symbolic data (e.g. a per-byte loop over a string of unknown length), which forks at every iteration."""
    script = []
    n = 0
    t0 = time.time()
    # once one exploration of this process has run out of time, the rest get a tenth of the budget: a construct that explodes
    # usually does so in every opcode arm, and the check must fail closed in bounded time
    budget = EXPLORE_BUDGET_S if not _TIMEOUTS[0] else max(5.0, EXPLORE_BUDGET_S / 10.0)
    while script is not None:
        if time.time() - t0 > budget:
            _TIMEOUTS[0] += 1
            raise Unanalysable("exploration exceeds the time budget of %ds after %d paths (a loop whose trip count depends on symbolic data?)" % (budget, n))
        run = Run(script)
        try:
            res = fn(run)
            yield run, res, None
        except PathEnd as pe:
            yield run, None, pe
        n += 1
        if n > max_runs:
            raise Unanalysable("path explosion: more than %d paths" % max_runs)
        script = run.next_script()


# ----------------------------------------------------------------------------------------
CMP = {"Lt": lambda a, b: a < b, "Le": lambda a, b: a <= b, "Gt": lambda a, b: a > b,
       "Ge": lambda a, b: a >= b, "Eq": lambda a, b: a == b, "Ne": lambda a, b: a != b}
NEG = {"Lt": "Ge", "Le": "Gt", "Gt": "Le", "Ge": "Lt", "Eq": "Ne", "Ne": "Eq"}
SWAP = {"Lt": "Gt", "Le": "Ge", "Gt": "Lt", "Ge": "Le", "Eq": "Eq", "Ne": "Ne"}


COVER = set()  # (body key, basic block) executed by any run of this process (C09 inventory)


class Frame:
    __slots__ = ("key", "body", "locals", "visits", "prev_bb", "substs")

    def __init__(self, key, body):
        self.key = key
        self.body = body
        self.locals = [Box_(UNINIT, "_%d" % i) for i in range(len(body["locals"]))]
        self.visits = {}
        self.prev_bb = None
        self.substs = {}


class Interp:
    def __init__(self, prog, run, models, stubs=None, max_depth=40, loop_limit=700, havoc=True):
        self.prog = prog
        self.run = run
        self.models = models
        self.stubs = stubs or {}
        self.depth = 0
        self.max_depth = max_depth
        self.loop_limit = loop_limit
        self.havoc = havoc
        self.frames = []
        self.stack = []  # call stack of keys (for reports)
        self.guards = []  # live RefCell guards (borrow typestate)
        self.site = None
        self.summ = None  # models.SummCtx while a loop over a symbolic string is being summarised

    # ---------------- helpers for models ----------------
    def where(self):
        return " <- ".join(reversed(self.stack[-4:])) + ((" line %s" % self.site) if self.site else "")

    def unanalysable(self, what):
        return Unanalysable(what, self.where())

    def load(self, ref):
        if self.summ is not None:
            self.summ.on_load(self, ref)
        v = ref.box.v
        for step in ref.path:
            v = self.project(v, step)
        if v is UNINIT:
            raise self.unanalysable("read of uninitialised place %r" % (ref,))
        return v

    def project(self, v, step):
        if isinstance(step, int):
            if isinstance(v, Agg):
                try:
                    return v.fields[step]
                except IndexError:
                    raise self.unanalysable("field %d of %r" % (step, v))
            if hasattr(v, "get_field"):
                return v.get_field(self, step)
            raise self.unanalysable("field projection %r on %r" % (step, type(v).__name__))
        if step[0] == "i":
            idx = step[1]
            if hasattr(v, "index_get"):
                return v.index_get(self, idx)
            if isinstance(v, Bytes):
                import models as _M
                if self.summ is not None and self.summ.is_target(v):
                    raise self.unanalysable("a loop over a symbolic string reads the buffer it appends to")
                return _M.byte_at(self, v, idx)
            if isinstance(v, Agg) and v.adt == "array" and is_sym(idx):
                import models as _M
                return _M.VecObj(v.fields).index_get(self, idx)
            if isinstance(v, Agg) and isinstance(idx, int):
                if 0 <= idx < len(v.fields):
                    return v.fields[idx]
                raise PathEnd("panic", "index out of bounds")
            raise self.unanalysable("index projection on %r with %r" % (type(v).__name__, idx))
        if step[0] == "sub":
            if hasattr(v, "subslice"):
                return v.subslice(self, step[1], step[2], step[3])
            raise self.unanalysable("subslice on %r" % type(v).__name__)
        raise self.unanalysable("projection %r" % (step,))

    def store(self, ref, val):
        if self.summ is not None:
            self.summ.on_store(self, ref)
        if not ref.path:
            ref.box.v = val
            return
        parent = ref.box.v
        if parent is UNINIT:
            parent = ref.box.v = Agg("partial", None, [])
        for step in ref.path[:-1]:
            if isinstance(parent, Agg) and parent.adt == "partial" and isinstance(step, int):
                while len(parent.fields) <= step:
                    parent.fields.append(UNINIT)
                if parent.fields[step] is UNINIT:
                    parent.fields[step] = Agg("partial", None, [])
            parent = self.project(parent, step)
        last = ref.path[-1]
        if isinstance(last, int):
            if isinstance(parent, Agg):
                while len(parent.fields) <= last:
                    parent.fields.append(UNINIT)
                parent.fields[last] = val
                return
            if hasattr(parent, "set_field"):
                parent.set_field(self, last, val)
                return
            if parent is UNINIT:
                # field-wise initialisation of a fresh aggregate local
                agg = Agg("partial", None, [])
                self.store(Ref(ref.box, ref.path[:-1]), agg)
                self.store(ref, val)
                return
        elif last[0] == "i":
            if hasattr(parent, "index_set"):
                parent.index_set(self, last[1], val)
                return
            if isinstance(parent, Agg) and isinstance(last[1], int):
                if 0 <= last[1] < len(parent.fields):
                    parent.fields[last[1]] = val
                    return
                raise PathEnd("panic", "index out of bounds")
        raise self.unanalysable("store through %r into %r" % (last, type(parent).__name__))

    def copy_val(self, v):
        if isinstance(v, Agg):
            return Agg(v.adt, v.variant, [self.copy_val(x) for x in v.fields], v.discr, v.vname)
        return v

    # ---------------- symbolic scalars ----------------
    def truth(self, v, label=""):
        """Decide a boolean (concrete, by intervals, by recorded atom, or by forking)."""
        if isinstance(v, bool):
            return v
        if isinstance(v, int):
            return v != 0
        if hasattr(v, "as_bool"):
            return v.as_bool(self)
        if not isinstance(v, Sym):
            raise self.unanalysable("branch on %r" % (v,))
        if v.op == "not":
            return not self.truth(v.args[0], label)
        if v.op in CMP:
            a, b = v.args
            d = self.decide_cmp(v.op, a, b)
            if d is not None:
                return d
        k = v.key()
        if k in self.run.atoms:
            return self.run.atoms[k]
        c = self.run.choose(2, "atom " + v.show())
        res = bool(c)
        self.run.atoms[k] = res
        self.run.atom_log.append((v, res, len(self.run.events)))
        if v.op in CMP:
            eff = v.op if res else NEG[v.op]
            self.refine(eff, v.args[0], v.args[1])
            a, b = v.args
            rel = self.run.__dict__.setdefault("rel_lt", set())
            if eff == "Lt":
                rel.add((id(a), id(b)))
            elif eff == "Gt":
                rel.add((id(b), id(a)))
        return res

    def _last_nonzero_byte(self, op, a, b):
        """the bytes of an integer that cannot be 0 are not all 0: once every sibling byte was assumed 0 on this path, this one is not"""
        if not (is_sym(a) and a.op == "byte" and b == 0 and op in ("Eq", "Ne") and len(a.args) == 2 and isinstance(a.args[1], int)):
            return None
        v, i = a.args
        src = a.attrs.get("src")
        n = src[3] if src and src[3] else None
        if n is None or not is_sym(v) and v == 0:
            return None
        lo, hi = bounds(v) if is_sym(v) else (v, v)
        if lo is None or hi is None or lo <= 0 <= hi:
            return None
        for j in range(n):
            if j == i:
                continue
            sib = Sym("byte", (v, j), "u8")
            eqk, nek = Sym("Eq", (sib, 0), "bool").key(), Sym("Ne", (sib, 0), "bool").key()
            if not (self.run.atoms.get(eqk) is True or self.run.atoms.get(nek) is False):
                return None
        return op == "Ne"

    def decide_cmp(self, op, a, b):
        d0 = self._last_nonzero_byte(op, a, b)
        if d0 is not None:
            return d0
        if hasattr(a, "cmp_with") :
            return a.cmp_with(self, op, b)
        if hasattr(b, "cmp_with"):
            return b.cmp_with(self, SWAP[op], a)
        if isinstance(a, float) or isinstance(b, float):
            if not is_sym(a) and not is_sym(b):
                return CMP[op](a, b)
            return None
        for x, y, flip in ((a, b, False), (b, a, True)):
            # facts carried by a draw: result < argument (entropy summaries)
            if is_sym(x) and "rel" in x.attrs:
                ra = x.attrs.get("rel_args") or []
                for kind, i in x.attrs["rel"]:
                    if kind == "lt_arg" and i < len(ra) and ra[i] is y:
                        o = SWAP[op] if flip else op
                        if o in ("Lt", "Le", "Ne"):
                            return True
                        if o in ("Gt", "Ge", "Eq"):
                            return False
                    if kind == "le_arg" and i < len(ra) and ra[i] is y:
                        o = SWAP[op] if flip else op
                        if o == "Le":
                            return True
                        if o == "Gt":
                            return False
        rel = self.run.__dict__.get("rel_lt")
        if rel:
            # relational facts assumed on this path: a < b
            if (id(a), id(b)) in rel:
                if op in ("Lt", "Le", "Ne"):
                    return True
                if op in ("Gt", "Ge", "Eq"):
                    return False
            if (id(b), id(a)) in rel:
                if op in ("Gt", "Ge", "Ne"):
                    return True
                if op in ("Lt", "Le", "Eq"):
                    return False
            # a < x  and  b = x.saturating_sub(1) with x >= 1   =>   a <= b
            if is_sym(b) and b.op in ("sat_sub", "sub") and len(b.args) == 2 and b.args[1] == 1 and is_sym(b.args[0]) and b.args[0].lo is not None and b.args[0].lo >= 1 and (id(a), id(b.args[0])) in rel:
                if op == "Gt":
                    return False
                if op == "Le":
                    return True
        alo, ahi = bounds(a)
        blo, bhi = bounds(b)
        if alo is None or blo is None or ahi is None or bhi is None:
            return None
        if is_sym(a) and is_sym(b) and a is b:
            return op in ("Le", "Ge", "Eq")
        if op == "Lt":
            if ahi < blo:
                return True
            if alo >= bhi:
                return False
        elif op == "Le":
            if ahi <= blo:
                return True
            if alo > bhi:
                return False
        elif op == "Gt":
            if alo > bhi:
                return True
            if ahi <= blo:
                return False
        elif op == "Ge":
            if alo >= bhi:
                return True
            if ahi < blo:
                return False
        elif op == "Eq":
            if alo == ahi == blo == bhi:
                return True
            if ahi < blo or alo > bhi:
                return False
        elif op == "Ne":
            if alo == ahi == blo == bhi:
                return False
            if ahi < blo or alo > bhi:
                return True
        return None

    def refine(self, op, a, b):
        """After assuming `a op b`, narrow intervals of leaf symbols (sound: only ever shrinks)."""
        if isinstance(a, float) or isinstance(b, float):
            return
        if is_sym(a) and a.ty in INT_TYPES and not is_sym(b) and isinstance(b, int):
            if op == "Lt":
                a.hi = min(a.hi, b - 1)
            elif op == "Le":
                a.hi = min(a.hi, b)
            elif op == "Gt":
                a.lo = max(a.lo, b + 1)
            elif op == "Ge":
                a.lo = max(a.lo, b)
            elif op == "Eq":
                a.lo = max(a.lo, b)
                a.hi = min(a.hi, b)
            elif op == "Ne":
                if a.lo == b:
                    a.lo = b + 1
                if a.hi == b:
                    a.hi = b - 1
        elif is_sym(b) and b.ty in INT_TYPES and not is_sym(a) and isinstance(a, int):
            self.refine(SWAP[op], b, a)
        elif is_sym(a) and is_sym(b) and a.ty in INT_TYPES and b.ty in INT_TYPES:
            if op == "Lt":
                a.hi = min(a.hi, b.hi - 1)
                b.lo = max(b.lo, a.lo + 1)
            elif op == "Le":
                a.hi = min(a.hi, b.hi)
                b.lo = max(b.lo, a.lo)
            elif op == "Gt":
                self.refine("Lt", b, a)
            elif op == "Ge":
                self.refine("Le", b, a)

    def binop(self, op, l, r, ty):
        if hasattr(l, "binop"):
            res = l.binop(self, op, r, ty, False)
            if res is not NotImplemented:
                return res
        if hasattr(r, "binop"):
            res = r.binop(self, op, l, ty, True)
            if res is not NotImplemented:
                return res
        if op in CMP:
            if not is_sym(l) and not is_sym(r):
                if isinstance(l, Agg) or isinstance(r, Agg):
                    raise self.unanalysable("comparison of aggregates")
                return CMP[op](l, r)
            d = self.decide_cmp(op, l, r)
            if d is not None:
                return d
            return Sym(op, (l, r), "bool")
        if op == "Cmp":
            raise self.unanalysable("three-way comparison")
        overflow = op.endswith("WithOverflow")
        base = op[:-len("WithOverflow")] if overflow else op
        unchecked = base.endswith("Unchecked")
        if unchecked:
            base = base[:-len("Unchecked")]
        if ty in ("f64", "f32"):
            if not is_sym(l) and not is_sym(r):
                return {"Add": l + r, "Sub": l - r, "Mul": l * r, "Div": (l / r) if r else float("nan")}[base]
            return Sym(base.lower(), (l, r), ty)
        if ty == "bool":
            if not is_sym(l) and not is_sym(r):
                return {"BitAnd": l and r, "BitOr": l or r, "BitXor": l != r}[base]
            return Sym(base.lower(), (l, r), "bool")
        if ty not in INT_TYPES:
            raise self.unanalysable("binary op %s on type %s" % (op, ty))
        tlo, thi = ty_range(ty)
        if not is_sym(l) and not is_sym(r):
            l, r = int(l), int(r)
            if base in ("Div", "Rem") and r == 0:
                raise PathEnd("panic", "division by zero")
            if base == "Div":
                exact = abs(l) // abs(r) * (1 if (l >= 0) == (r >= 0) else -1)
            elif base == "Rem":
                exact = abs(l) % abs(r) * (1 if l >= 0 else -1)
            elif base in ("Shl", "Shr"):
                bits = INT_TYPES[ty][0]
                if r < 0 or r >= bits:
                    if overflow or not unchecked:
                        raise PathEnd("panic", "shift overflow")
                exact = (l << r) if base == "Shl" else (l >> r)
            else:
                exact = {"Add": l + r, "Sub": l - r, "Mul": l * r, "BitAnd": l & r, "BitOr": l | r,
                         "BitXor": l ^ r}[base]
            res = wrap(exact, ty)
            if overflow:
                return Agg("tuple", None, [res, not (tlo <= exact <= thi)])
            return res
        # symbolic
        alo, ahi = bounds(l)
        blo, bhi = bounds(r)
        lo = hi = None
        if base == "Add":
            lo, hi = alo + blo, ahi + bhi
        elif base == "Sub":
            lo, hi = alo - bhi, ahi - blo
        elif base == "Mul":
            c = [alo * blo, alo * bhi, ahi * blo, ahi * bhi]
            lo, hi = min(c), max(c)
        elif base == "Rem":
            if blo > 0:
                lo, hi = (0, bhi - 1) if alo >= 0 else (-(bhi - 1), bhi - 1)
                if alo >= 0:
                    hi = min(hi, ahi)
            else:
                lo, hi = None, None
        elif base == "Div":
            if blo > 0 and alo >= 0:
                lo, hi = alo // bhi, ahi // blo
        elif base == "BitAnd":
            if blo >= 0 and alo >= 0:
                lo, hi = 0, min(ahi, bhi)
            elif blo >= 0:
                lo, hi = 0, bhi
            elif alo >= 0:
                lo, hi = 0, ahi
        elif base == "Shr":
            if alo >= 0 and blo == bhi and blo >= 0:
                lo, hi = alo >> blo, ahi >> blo
        elif base == "Shl":
            if alo >= 0 and blo >= 0 and bhi < 200:
                lo, hi = alo << blo, ahi << bhi
        elif base in ("BitOr", "BitXor"):
            if alo >= 0 and blo >= 0:
                m = max(ahi, bhi)
                lo, hi = 0, (1 << m.bit_length()) - 1
        sname = {"Add": "add", "Sub": "sub", "Mul": "mul", "Rem": "rem", "Div": "div", "BitAnd": "and",
                 "BitOr": "or", "BitXor": "xor", "Shl": "shl", "Shr": "shr"}[base]
        if base in ("Div", "Rem"):
            if blo <= 0 <= bhi:
                # possible division by zero: fork
                z = self.truth(Sym("Eq", (r, 0), "bool"))
                if z:
                    self.run.panics.append(("div_by_zero", self.where()))
                    raise PathEnd("panic", "division by zero")
        may_overflow = lo is None or lo < tlo or hi > thi
        if may_overflow and base == "Add" and self.sum_below_bound(l, r):
            may_overflow = False
            lo, hi = max(lo, tlo), min(hi, thi)
        if base in ("Shl", "Shr"):
            bits = INT_TYPES[ty][0]
            may_overflow = not (blo >= 0 and bhi < bits)
        if overflow:
            if not may_overflow:
                return Agg("tuple", None, [Sym(sname, (l, r), ty, lo, hi), False])
            of = Sym("overflow_" + sname, (l, r), "bool")
            return Agg("tuple", None, [Sym(sname, (l, r), ty, lo if lo is not None and lo >= tlo and hi <= thi else None,
                                                hi if lo is not None and lo >= tlo and hi <= thi else None), of])
        if may_overflow and base in ("Add", "Sub", "Mul", "Shl"):
            # wrapping semantics: interval unknown
            return Sym(sname, (l, r), ty)
        return Sym(sname, (l, r), ty, lo, hi)

    def sum_below_bound(self, l, r):
        """b + d  with  d < a.saturating_sub(b)  (a fact carried by the draw d)  is < a: no overflow"""
        for x, d in ((l, r), (r, l)):
            if is_sym(d) and "rel" in d.attrs:
                ra = d.attrs.get("rel_args") or []
                for kind, i in d.attrs["rel"]:
                    if kind in ("lt_arg", "le_arg") and i < len(ra) and is_sym(ra[i]) and ra[i].op == "sat_sub" and ra[i].args[1] is x:
                        return True     # b + d <= b + (a - b) = a when a >= b, and d = 0 when a < b (a.saturating_sub(b) = 0)
        return False

    def cast_int(self, v, from_ty, to_ty):
        if hasattr(v, "cast_to"):
            return v.cast_to(self, from_ty, to_ty)
        if to_ty in ("f64", "f32"):
            if is_sym(v):
                return Sym("cast", (v,), to_ty)
            return float(v)
        if to_ty not in INT_TYPES:
            raise self.unanalysable("cast to %s" % to_ty)
        if isinstance(v, bool):
            v = int(v)
        if isinstance(v, float):
            tlo, thi = ty_range(to_ty)
            if v != v:
                return 0
            return max(tlo, min(thi, int(v)))
        if not is_sym(v):
            return wrap(int(v), to_ty)
        if from_ty in ("f64", "f32"):
            return Sym("cast", (v,), to_ty)
        tlo, thi = ty_range(to_ty)
        if v.lo is not None and v.lo >= tlo and v.hi <= thi:
            s = Sym("cast", (v,), to_ty, v.lo, v.hi)
        else:
            s = Sym("cast", (v,), to_ty)
        s.attrs.update(v.attrs)
        return s

    # ---------------- evaluation ----------------
    def eval_place(self, fr, pl):
        ref = Ref(fr.locals[pl["l"]], ())
        for p in pl["p"]:
            if p == "deref":
                cur = self.load(ref)
                if isinstance(cur, Ref):
                    ref = cur
                elif hasattr(cur, "deref_ref"):
                    ref = cur.deref_ref(self)
                else:
                    raise self.unanalysable("deref of %r" % (cur,))
            elif "f" in p:
                ref = Ref(ref.box, ref.path + (p["f"],))
            elif "dc" in p:
                pass
            elif "idx" in p:
                iv = self.load(Ref(fr.locals[p["idx"]], ()))
                ref = Ref(ref.box, ref.path + (("i", iv),))
            elif "ci" in p:
                if p["fe"]:
                    raise self.unanalysable("constant index from end")
                ref = Ref(ref.box, ref.path + (("i", p["ci"]),))
            elif "sub" in p:
                ref = Ref(ref.box, ref.path + (("sub", p["sub"][0], p["sub"][1], p["fe"]),))
            elif "oc" in p:
                pass
            else:
                raise self.unanalysable("projection %r" % (p,))
        return ref

    def eval_const(self, fr, c):
        v = c["v"]
        ty = c["ty"]
        if "int" in v:
            return v["int"]
        if "bool" in v:
            return v["bool"]
        if "char" in v:
            return v["char"]
        if "fbits" in v:
            return f64_from_bits(v["fbits"]) if v["fsize"] == 8 else f32_from_bits(v["fbits"])
        if "fn" in v:
            return FnItem(v["fn"])
        if "fnptr" in v:
            return FnItem(v["fnptr"])          # function pointer constant (fn item or non-capturing closure coerced to `fn`)
        if "bytes" in v:
            b = Bytes([("lit", bytes(v["bytes"]))], is_str=("str" in v) or ty.endswith("str"))
            return Ref(Box_(b, "const"), ())
        if "elems" in v:
            from models import VecObj
            return Ref(Box_(VecObj(list(v["elems"]), v.get("ety")), "const"), ())
        if "promoted" in v:
            return self.eval_promoted(fr, v["promoted"])
        if "zst" in v:
            if v["zst"] == "()":
                return unit()
            return Agg(v["zst"], None, [])
        if "adt" in v or "fields" in v:
            return self.const_agg(fr, ty, v)
        if "static" in v:
            return Ref(self.static_box(v["static"]), ())
        if "opaque" in v:
            m = re.fullmatch(r"Ty\((\w+), (\w+)/#\d+\)", str(v["opaque"]).strip())
            if m:
                return self.const_param(fr, m.group(2), m.group(1))
        if ("opaque" in v or "raw" in v or "ptr" in v) and c.get("named"):
            # a named constant of the crate whose value the exporter could not flatten: evaluate its own (const) body
            nm = c["named"]
            key = nm if nm in self.prog.bodies else next((k for k in self.prog.bodies if k.endswith("::" + nm) or nm.endswith("::" + k)), None)
            if key is not None and self.prog.bodies[key].get("kind") in ("const", "static") and self.prog.bodies[key]["arg_count"] == 0:
                return self.call(key, [])
        if "opaque" in v or "raw" in v or "ptr" in v:
            return Opaque("const:" + ty, text=str(v)[:200])
        raise self.unanalysable("constant %r" % (c,))

    def const_agg(self, fr, ty, v):
        fields = [self.eval_const(fr, f) for f in v.get("fields", [])]
        if "adt" in v:
            vi = v.get("variant", 0)
            return Agg(v["adt"], vi, fields, self.discr_of(v["adt"], vi), v.get("vname"))
        if ty.startswith("["):
            return Agg("array", None, fields)
        return Agg("tuple", None, fields)

    def discr_of(self, adt, vi):
        a = self.prog.adts.get(adt)
        if a and a["kind"] == "enum":
            d = a["variants"][vi]["discr"]
            return d if d is not None else vi
        return vi

    def static_box(self, path):
        cache = self.models.statics
        if path in cache:
            return cache[path]
        key = None
        for k in self.prog.bodies:
            if k == path or k.endswith("::" + path.split("::")[-1]) and self.prog.bodies[k]["kind"] == "static" and path.endswith(k):
                key = k
        if key is None:
            raise self.unanalysable("static %s has no exported body" % path)
        box = Box_(UNINIT, "static " + path)
        cache[path] = box
        box.v = self.call(key, [])
        return box

    def eval_promoted(self, fr, idx):
        pb = fr.body.get("promoted", [])
        owner = fr
        if idx >= len(pb):
            raise self.unanalysable("promoted[%d] missing" % idx)
        key = "%s::promoted[%d]" % (fr.key, idx)
        cache = self.models.promoted_cache
        # promoted constants are pure: evaluate once per interpreter (they may contain no entropy)
        ck = (id(self.run), key)
        if ck in cache:
            return cache[ck]
        sub = Frame(key, dict(pb[idx], promoted=pb))
        v = self.exec_frame(sub, [])
        cache[ck] = v
        return v

    def eval_operand(self, fr, op):
        if "cp" in op:
            return self.copy_val(self.load(self.eval_place(fr, op["cp"])))
        if "mv" in op:
            return self.load(self.eval_place(fr, op["mv"]))
        if "c" in op:
            return self.eval_const(fr, op["c"])
        raise self.unanalysable("operand %r" % (op,))

    def discriminant(self, v):
        if isinstance(v, Agg):
            return v.discr
        if hasattr(v, "discriminant"):
            return v.discriminant(self)
        raise self.unanalysable("discriminant of %r" % (v,))

    def eval_rvalue(self, fr, rv):
        k = rv["k"]
        if k == "use":
            return self.eval_operand(fr, rv["o"])
        if k in ("ref", "rawptr"):
            r = self.eval_place(fr, rv["pl"])
            return Ref(r.box, r.path, rv.get("bk") == "mut")
        if k == "cfd":
            return self.load(self.eval_place(fr, rv["pl"]))
        if k == "bin":
            l = self.eval_operand(fr, rv["l"])
            r = self.eval_operand(fr, rv["r"])
            return self.binop(rv["op"], l, r, rv["ty"])
        if k == "un":
            v = self.eval_operand(fr, rv["o"])
            op = rv["op"]
            if op == "Not":
                if isinstance(v, bool):
                    return not v
                if is_sym(v) and v.ty == "bool":
                    if v.op in CMP:
                        return Sym(NEG[v.op], v.args, "bool")
                    return Sym("not", (v,), "bool")
                if hasattr(v, "as_bool"):
                    return not v.as_bool(self)
                if isinstance(v, int):
                    return wrap(~v, rv["ty"])
                return Sym("bitnot", (v,), rv["ty"])
            if op == "Neg":
                if is_sym(v):
                    return Sym("neg", (v,), rv["ty"])
                return -v if isinstance(v, float) else wrap(-v, rv["ty"])
            if op == "PtrMetadata":
                tgt = self.load(v) if isinstance(v, Ref) else v
                return self.models.length_of(self, tgt)
            raise self.unanalysable("unary op %s" % op)
        if k == "discr":
            return self.discriminant(self.load(self.eval_place(fr, rv["pl"])))
        if k == "agg":
            ak = rv["ak"]
            ops = [self.eval_operand(fr, o) for o in rv["ops"]]
            t = ak["t"]
            if t == "tuple":
                return Agg("tuple", None, ops)
            if t == "array":
                return Agg("array", None, ops)
            if t == "adt":
                if ak.get("kind") == "union":
                    raise self.unanalysable("union aggregate")
                a = Agg(ak["adt"], ak["v"], ops, ak.get("discr", ak["v"]), ak["vn"] if ak.get("kind") == "enum" else None)
                return self.models.on_aggregate(self, a)
            if t == "closure":
                return Agg("closure", ak["closure"], ops)
            raise self.unanalysable("aggregate kind %r" % (ak,))
        if k == "cast":
            v = self.eval_operand(fr, rv["o"])
            ck = rv["ck"]
            if ck in ("IntToInt", "IntToFloat", "FloatToInt", "FloatToFloat"):
                return self.cast_int(v, rv["from"], rv["ty"])
            if ck.startswith("PointerCoercion") or ck in ("PtrToPtr", "Transmute", "Subtype"):
                return v
            if ck == "PointerExposeProvenance":
                self.run.event("ptr_to_int", self.where())
                return Sym("addr", (), rv["ty"] if rv["ty"] in INT_TYPES else "usize", attrs={"name": "addr"})
            raise self.unanalysable("cast kind %s" % ck)
        if k == "repeat":
            v = self.eval_operand(fr, rv["o"])
            n = rv["n"]
            if n is None or n > 65536:
                raise self.unanalysable("repeat with count %r" % (n,))
            return Agg("array", None, [self.copy_val(v) for _ in range(n)])
        raise self.unanalysable("rvalue %r" % (rv.get("text", k),))

    # ---------------- control ----------------
    def call(self, key, args, nostub=False, substs=None):
        """Interpret local body `key` with argument values (substs: generic arguments of the call, as exported)."""
        stub = None if nostub else self.stubs.get(key)
        if stub is not None:
            return stub(self, key, args)
        body = self.prog.bodies.get(key)
        if body is None:
            raise self.unanalysable("no body for %s" % key)
        if key in self.stack and any(isinstance(x, Ref) and getattr(getattr(x.box, "cell", None), "origin", "") == "inner" for x in args):
            # re-entered with an object taken out of unknown nested content: the recursion depth is the nesting depth
            self.run.panics.append(("unbounded_recursion", key))
            raise PathEnd("panic", "unbounded recursion in %s over nested/cyclic objects (stack exhaustion)" % key)
        if self.depth >= self.max_depth:
            rec = [k for k in set(self.stack) if self.stack.count(k) >= 5]
            if rec:
                # recursion whose depth is governed by the (unbounded, possibly cyclic) abstract data
                self.run.panics.append(("unbounded_recursion", sorted(rec)[0]))
                raise PathEnd("panic", "unbounded recursion in %s over nested/cyclic objects (stack exhaustion)" % sorted(rec)[0])
            raise self.unanalysable("call depth exceeded at %s" % key)
        fr = Frame(key, body)
        fr.substs = dict(zip(body.get("generics") or [], substs or []))
        return self.exec_frame(fr, args)

    def subst_ty(self, name):
        """a type argument as written inside a generic body -> what the running call substituted for it (if known)"""
        for _ in range(4):
            fr = self.frames[-1] if self.frames else None
            v = fr.substs.get(name) if fr is not None else None
            if v is None and fr is not None:
                for outer in reversed(self.frames):
                    if outer is not fr and fr.key.startswith(outer.key + "::{closure") and name in outer.substs:
                        v = outer.substs[name]
                        break
            if not isinstance(v, str) or v == name:
                break
            name = v
        return name

    def const_param(self, fr, name, ty):
        """value of a const generic parameter of the running body: from the call's generic arguments, else from the
        length of an array argument whose declared type mentions the parameter"""
        v = getattr(fr, "substs", {}).get(name)
        if v is None:
            # a closure body shares the generic parameters of the function it is written in
            for outer in reversed(self.frames):
                if outer is not fr and fr.key.startswith(outer.key + "::{closure") and name in outer.substs:
                    return self.const_param(outer, name, ty)
        if isinstance(v, str) and re.fullmatch(r"-?[0-9]+(_?[iu](8|16|32|64|128|size))?", v.strip()):
            return int(re.match(r"-?[0-9]+", v.strip()).group(0))
        body = fr.body
        for i in range(1, body["arg_count"] + 1):
            lty = str(body["locals"][i].get("ty", ""))
            if re.search(r";\s*%s\]" % re.escape(name), lty):
                a = fr.locals[i].v
                for _ in range(3):
                    if isinstance(a, Ref):
                        a = self.load(a)
                if isinstance(a, Agg) and a.adt == "array":
                    return len(a.fields)
                if hasattr(a, "elems"):
                    return len(a.elems)
        raise self.unanalysable("const generic parameter %s of %s has no known value" % (name, fr.key))

    def call_closure(self, cl, args):
        if isinstance(cl, Ref):
            cl = self.load(cl)
        if isinstance(cl, FnItem):
            return self.call_callee(cl.callee, args)
        if not (isinstance(cl, Agg) and cl.adt == "closure"):
            raise self.unanalysable("call of non-closure %r" % (cl,))
        key = cl.variant
        body = self.prog.bodies.get(key)
        if body is None:
            raise self.unanalysable("no body for closure %s" % key)
        self_ty = body["locals"][1]["ty"] if len(body["locals"]) > 1 else ""
        first = Ref(Box_(cl, "closure"), ()) if self_ty.startswith("&") else cl
        return self.call(key, [first] + list(args))

    def exec_frame(self, fr, args):
        body = fr.body
        if len(args) != body["arg_count"]:
            raise self.unanalysable("arity mismatch calling %s: %d vs %d" % (fr.key, len(args), body["arg_count"]))
        for i, a in enumerate(args):
            fr.locals[i + 1].v = a
        self.depth += 1
        self.stack.append(fr.key)
        self.frames.append(fr)
        try:
            loops = self.prog.loops(fr.key) if fr.key in self.prog.bodies and self.havoc else {}
            bb = 0
            blocks = body["blocks"]
            while True:
                n = fr.visits.get(bb, 0) + 1
                fr.visits[bb] = n
                COVER.add((fr.key, bb))
                if n > self.loop_limit:
                    raise PathEnd("bound", "loop bound at %s bb%d" % (fr.key, bb))
                if bb in loops and fr.prev_bb in loops[bb]["latches"]:
                    for l in loops[bb]["havoc"]:
                        ld = body["locals"][l]
                        fr.locals[l].v = Sym("havoc", (), ld["ty"], attrs={"name": ld.get("name", "_%d" % l)})
                blk = blocks[bb]
                for st in blk["s"]:
                    self.run.steps += 1
                    if self.run.steps % 20000 == 0 and time.time() - self.run.__dict__.setdefault("t0", time.time()) > EXPLORE_BUDGET_S:
                        raise Unanalysable("one path runs longer than the %ds budget (%d steps): loop over symbolic data?" % (EXPLORE_BUDGET_S, self.run.steps))
                    self.site = st.get("ln")
                    sk = st["k"]
                    if sk == "assign":
                        v = self.eval_rvalue(fr, st["rv"])
                        self.store(self.eval_place(fr, st["pl"]), v)
                    elif sk == "setdiscr":
                        r = self.eval_place(fr, st["pl"])
                        cur = r.box.v if not r.path else self.load(r)
                        if isinstance(cur, Agg):
                            cur.variant = st["v"]
                            cur.discr = self.discr_of(cur.adt, st["v"])
                        else:
                            raise self.unanalysable("SetDiscriminant on %r" % (cur,))
                    else:
                        raise self.unanalysable("statement %s" % st.get("text", sk))
                t = blk["t"]
                self.site = t.get("ln")
                self.run.steps += 1
                tk = t["k"]
                fr.prev_bb = bb
                if tk == "goto":
                    bb = t["t"]
                elif tk == "switch":
                    v = self.eval_operand(fr, t["o"])
                    bb = self.switch(v, t)
                elif tk == "return":
                    if self.summ is not None and self.summ.frame is fr:
                        raise self.unanalysable("a loop over a symbolic string is left before its end (break / return inside the loop)")
                    rv = fr.locals[0].v
                    if rv is UNINIT:
                        rty = body["locals"][0]["ty"]
                        if rty == "()":
                            return unit()
                        raise self.unanalysable("return of uninitialised value in %s" % fr.key)
                    return rv
                elif tk == "call":
                    dest = self.eval_place(fr, t["dest"])
                    f = t["f"]
                    argv = [self.eval_operand(fr, a) for a in t["args"]]
                    if "indirect" in f:
                        fv = self.eval_operand(fr, f["indirect"])
                        res = self.call_closure(fv, argv)
                    else:
                        res = self.call_callee(f, argv)
                    if t["t"] is None:
                        raise PathEnd("diverge", f.get("path"))
                    self.store(dest, res)
                    bb = t["t"]
                elif tk == "drop":
                    v = self.eval_place(fr, t["pl"])
                    try:
                        val = v.box.v if not v.path else self.load(v)
                    except Unanalysable:
                        val = UNINIT
                    self.models.on_drop(self, val, t["ty"])
                    bb = t["t"]
                elif tk == "assert":
                    c = self.eval_operand(fr, t["c"])
                    okv = self.truth(c, "assert") == t["exp"]
                    if not okv:
                        self.run.panics.append(("assert", t["msg"][:80], fr.key, t.get("ln")))
                        raise PathEnd("panic", t["msg"][:80])
                    bb = t["t"]
                elif tk == "unreachable":
                    raise self.unanalysable("reached `unreachable` terminator in %s bb%d" % (fr.key, bb))
                else:
                    raise self.unanalysable("terminator %s" % t.get("text", tk))
        finally:
            self.depth -= 1
            self.stack.pop()
            self.frames.pop()
            if self.summ is not None and self.summ.frame is fr:
                self.summ = None

    def switch(self, v, t):
        targets = t["targets"]
        if isinstance(v, bool):
            v = int(v)
        if isinstance(v, int):
            ty = t["ty"]
            if ty in INT_TYPES and v < 0:
                v = v & ((1 << INT_TYPES[ty][0]) - 1)
            for val, b in targets:
                if val == v:
                    return b
            return t["otherwise"]
        if hasattr(v, "on_switch"):
            return v.on_switch(self, targets, t["otherwise"])
        if is_sym(v):
            if v.ty == "bool":
                res = int(self.truth(v))
                for val, b in targets:
                    if val == res:
                        return b
                return t["otherwise"]
            # integer symbol: try each listed value, then otherwise
            for val, b in targets:
                d = self.decide_cmp("Eq", v, val)
                if d is True:
                    return b
                if d is None and self.truth(Sym("Eq", (v, val), "bool")):
                    return b
            return t["otherwise"]
        raise self.unanalysable("switch on %r" % (v,))

    def closure_by_span(self, tystr):
        """`{closure@src/x.rs:120:32: 120:35}` -> key of that closure body (unique by file and line)"""
        m = re.match(r"\{closure@([^:]+):(\d+):(\d+)", tystr or "")
        if not m:
            return None
        hits = [k for k, b in self.prog.bodies.items() if b.get("kind") == "closure" and (b.get("span") or {}).get("file") == m.group(1)
                and (b.get("span") or {}).get("line") == int(m.group(2))]
        return hits[0] if len(hits) == 1 else None

    def call_callee(self, f, argv):
        res = f.get("res") or {}
        rpath = res.get("path")
        if res.get("kind") == "closure_once_shim" or (f.get("path", "").endswith(("FnOnce::call_once", "FnMut::call_mut", "Fn::call"))
                                                       and (f.get("args") or [""])[0].startswith("{closure@") and not argv[:1] == [None]):
            # a non-capturing closure used through a function pointer: the callee is the closure body itself
            key = self.closure_by_span((f.get("args") or [""])[0])
            if key is not None and not (argv and isinstance(argv[0], (Agg, Ref)) and getattr(self.load(argv[0]) if isinstance(argv[0], Ref) else argv[0], "adt", None) == "closure"):
                return self.call_closure(Agg("closure", key, []), list(argv))
        # 1. local body (resolved impl or the item itself)
        for cand in (rpath, f.get("path")):
            if cand and cand in self.prog.bodies and res.get("kind") in (None, "item", "closure_once_shim", "reify_shim"):
                if cand in self.stubs:
                    if self.summ is not None:
                        raise self.unanalysable("summarised callee %s inside a loop over a symbolic string" % cand)
                    return self.stubs[cand](self, cand, argv)
                m = self.models.local_override(cand)
                if m is not None:
                    if self.summ is not None:
                        raise self.unanalysable("summarised callee %s inside a loop over a symbolic string" % cand)
                    return m(self, f, argv)
                return self.call(cand, argv, substs=(res.get("args") if cand == rpath and res.get("args") is not None else f.get("args")))
        m = self.models.lookup(f)
        if m is not None:
            if self.summ is not None:
                self.summ.check_callee(self, f)
            return m(self, f, argv)
        if self.summ is not None:
            raise self.unanalysable("unmodelled callee %s inside a loop over a symbolic string" % f.get("path"))
        # a tuple-variant / tuple-struct constructor used as a function (`map_err(MyError::Io)`)
        pth = f.get("path") or ""
        if "::" in pth and res.get("kind") in (None, "item"):
            adt_name, vn = pth.rsplit("::", 1)
            cands = [k for k in self.prog.adts if k == adt_name or k.endswith("::" + adt_name) or adt_name.endswith("::" + k)]
            if len(cands) == 1:
                for v in self.prog.adts[cands[0]]["variants"]:
                    if v["name"] == vn and len(v["fields"]) == len(argv):
                        return Agg(cands[0], v["idx"], list(argv), v["discr"] if v.get("discr") is not None else v["idx"], vn)
        # a call on `Self` inside a provided trait method of a crate-local trait: with exactly one implementor the
        # callee is that implementor's item (or the provided body when it does not override it)
        if f.get("trait") and res.get("kind") in (None, "unresolved") and not str(f.get("trait")).startswith(("std::", "core::", "alloc::")):
            impls = [i for i in self.prog.impls if i.get("trait") and (i["trait"] == f["trait"] or i["trait"].endswith("::" + f["trait"]) or f["trait"].endswith("::" + i["trait"]))]
            if len(impls) == 1:
                key = next((it["key"] for it in impls[0]["items"] if it.get("name") == f.get("name") or it["key"].endswith("::" + str(f.get("name")))), None)
                if key is None and f.get("path") in self.prog.bodies:
                    key = f["path"]
                if key is not None and key in self.prog.bodies:
                    m2 = self.models.local_override(key)
                    if m2 is not None:
                        return m2(self, f, argv)
                    if key in self.stubs:
                        return self.stubs[key](self, key, argv)
                    return self.call(key, argv)
        raise self.unanalysable("unmodelled callee %s (resolved %s, kind %s)" % (f.get("path"), rpath, res.get("kind")))
