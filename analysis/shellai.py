"""Path-sensitive abstract interpreter for the bash subset used by scripts/action-run.sh (C13, rule R13.g).

The wrapper's only job is to turn INPUT_* environment variables into an argv for `pickle-fuzzer`.  Instead of matching its
text, the script is parsed and interpreted on ABSTRACT inputs: every INPUT_* variable is either empty or an opaque non-empty
token (no IFS characters, not starting with '-'); `case` arms and `==` tests against literals split a token into "one of
these literals" / "none of them"; a list read with `read -a` has one or two opaque elements.  Every path ends in a list of
pickle-fuzzer invocations (abstract argv) plus an exit status; anything outside the subset is reported (fails closed).
Nothing is executed: no process is spawned, values stay symbolic."""
import re


class ShellError(Exception):
    pass


class Tok:
    """opaque non-empty string coming from an input (origin = variable name or (variable, element index))"""
    __slots__ = ("origin",)

    def __init__(self, origin):
        self.origin = origin

    def __repr__(self):
        return "<%s>" % (self.origin if isinstance(self.origin, str) else "%s[%d]" % self.origin)

    def __eq__(self, o):
        return isinstance(o, Tok) and o.origin == self.origin

    def __hash__(self):
        return hash(("Tok", self.origin))


class Splice:
    """unquoted expansion of an opaque token: any number of words"""
    __slots__ = ("origin",)

    def __init__(self, origin):
        self.origin = origin

    def __repr__(self):
        return "<split %s>" % self.origin

    def __eq__(self, o):
        return isinstance(o, Splice) and o.origin == self.origin

    def __hash__(self):
        return hash(("Splice", self.origin))


def s_lit(v):
    """abstract string -> python str when it is fully literal, else None"""
    if all(isinstance(a, str) for a in v):
        return "".join(v)
    return None


def s_norm(atoms):
    out = []
    for a in atoms:
        if isinstance(a, str):
            if not a:
                continue
            if out and isinstance(out[-1], str):
                out[-1] += a
                continue
        out.append(a)
    return tuple(out)


# ------------------------------------------------------------------------------------------------ lexer
OPS = ["<<<", "&&", "||", ";;", ">&2", "2>&1", "1>&2", ";", "|", "(", ")", "<", ">", "&"]
NAME = re.compile(r"[A-Za-z_][A-Za-z0-9_]*")


class Lexer:
    def __init__(self, text):
        self.t = text
        self.i = 0
        self.toks = []
        self.run()

    def err(self, msg):
        line = self.t.count("\n", 0, self.i) + 1
        raise ShellError("line %d: %s" % (line, msg))

    def run(self):
        t = self.t
        n = len(t)
        while self.i < n:
            c = t[self.i]
            if c == "\\" and self.i + 1 < n and t[self.i + 1] == "\n":
                self.i += 2
                continue
            if c == "\n":
                self.toks.append(("nl", "\n", self.line()))
                self.i += 1
                continue
            if c in " \t":
                self.i += 1
                continue
            if c == "#" and (self.i == 0 or t[self.i - 1] in " \t\n;"):
                while self.i < n and t[self.i] != "\n":
                    self.i += 1
                continue
            if t.startswith("[[", self.i) and (self.i + 2 >= n or t[self.i + 2] in " \t\n"):
                self.toks.append(("op", "[[", self.line()))
                self.i += 2
                continue
            if t.startswith("]]", self.i):
                self.toks.append(("op", "]]", self.line()))
                self.i += 2
                continue
            for op in OPS:
                if t.startswith(op, self.i):
                    self.toks.append(("op", op, self.line()))
                    self.i += len(op)
                    break
            else:
                self.word()

    def line(self):
        return self.t.count("\n", 0, self.i) + 1

    def word(self):
        """one word; array assignments NAME=( ... ) / NAME+=( ... ) become a single token"""
        t = self.t
        ln = self.line()
        m = NAME.match(t, self.i)
        if m:
            j = m.end()
            app = t.startswith("+=(", j)
            if app or t.startswith("=(", j):
                self.i = j + (3 if app else 2)
                words = []
                while True:
                    while self.i < len(t) and t[self.i] in " \t\n":
                        self.i += 1
                    if self.i >= len(t):
                        self.err("unterminated array literal")
                    if t[self.i] == ")":
                        self.i += 1
                        break
                    words.append(self.parts())
                self.toks.append(("arr", (m.group(0), app, words), ln))
                return
        self.toks.append(("word", self.parts(), ln))

    def parts(self, stop=" \t\n;&|()<>"):
        t = self.t
        n = len(t)
        parts = []
        cur = ""
        start = self.i

        def flush(q=False):
            nonlocal cur
            if cur or q:
                parts.append(("lit", cur, q))
            cur = ""
        while self.i < n:
            c = t[self.i]
            if c in stop:
                break
            if c == "]" and t.startswith("]]", self.i) and self.i > start and False:
                break
            if c == "$" and t.startswith("$'", self.i):
                # ANSI-C quoting $'...': backslash escapes are interpreted
                j = self.i + 2
                buf = ""
                while j < n and t[j] != "'":
                    if t[j] == "\\" and j + 1 < n:
                        buf += {"n": "\n", "t": "\t", "r": "\r", "\\": "\\", "'": "'", '"': '"', "0": "\0", "a": "\a", "e": "\x1b"}.get(t[j + 1], t[j + 1])
                        j += 2
                    else:
                        buf += t[j]
                        j += 1
                if j >= n:
                    self.err("unterminated $'")
                flush()
                parts.append(("lit", buf, True))
                self.i = j + 1
                continue
            if c == "'":
                j = t.find("'", self.i + 1)
                if j < 0:
                    self.err("unterminated '")
                flush()
                parts.append(("lit", t[self.i + 1:j], True))
                self.i = j + 1
                continue
            if c == '"':
                flush()
                self.i += 1
                any_part = False
                while True:
                    if self.i >= n:
                        self.err('unterminated "')
                    c = t[self.i]
                    if c == '"':
                        self.i += 1
                        break
                    if c == "\\" and self.i + 1 < n and t[self.i + 1] in '"\\$`':
                        cur += t[self.i + 1]
                        self.i += 2
                        continue
                    if c == "$":
                        if cur:
                            parts.append(("lit", cur, True))
                            cur = ""
                            any_part = True
                        parts.append(self.dollar(True))
                        any_part = True
                        continue
                    if c == "`":
                        self.err("command substitution is outside the analysed subset")
                    cur += c
                    self.i += 1
                if cur or not any_part:
                    parts.append(("lit", cur, True))
                cur = ""
                continue
            if c == "\\" and self.i + 1 < n:
                cur += t[self.i + 1]
                self.i += 2
                continue
            if c == "$":
                flush()
                parts.append(self.dollar(False))
                continue
            if c == "`":
                self.err("command substitution is outside the analysed subset")
            cur += c
            self.i += 1
        flush()
        return parts

    def dollar(self, quoted):
        t = self.t
        self.i += 1
        if self.i >= len(t):
            return ("lit", "$", quoted)
        c = t[self.i]
        if c == "(":
            self.err("command substitution / arithmetic is outside the analysed subset")
        if c == "{":
            j = t.find("}", self.i)
            if j < 0:
                self.err("unterminated ${")
            body = t[self.i + 1:j]
            self.i = j + 1
            m = re.fullmatch(r"#([A-Za-z_][A-Za-z0-9_]*)\[[@*]\]", body)
            if m:
                return ("var", m.group(1), None, quoted, "alen")
            m = re.fullmatch(r"([A-Za-z_][A-Za-z0-9_]*)\[([@*])\]", body)
            if m:
                return ("var", m.group(1), None, quoted, "aall" if m.group(2) == "@" else "astar")
            m = re.fullmatch(r"([A-Za-z_][A-Za-z0-9_]*|[0-9]+|[@*#?])(?:(:?-)(.*))?", body, re.S)
            if m:
                dflt = None
                if m.group(2):
                    if re.search(r"[$`\"']", m.group(3)):
                        self.err("non-literal default in ${%s}" % body)
                    dflt = (m.group(2), m.group(3))
                return ("var", m.group(1), dflt, quoted, "scalar")
            self.err("parameter expansion ${%s} is outside the analysed subset" % body)
        m = re.compile(r"[A-Za-z_][A-Za-z0-9_]*|[0-9]|[@*#?]").match(t, self.i)
        if not m:
            return ("lit", "$", quoted)
        self.i = m.end()
        return ("var", m.group(0), None, quoted, "scalar")


# ------------------------------------------------------------------------------------------------ parser
def wlit(w):
    """literal text of a word token's parts if it is a plain unquoted literal, else None"""
    if len(w) == 1 and w[0][0] == "lit" and not w[0][2]:
        return w[0][1]
    return None


class Parser:
    def __init__(self, text):
        self.toks = Lexer(text).toks
        self.i = 0

    def peek(self):
        return self.toks[self.i] if self.i < len(self.toks) else ("eof", None, -1)

    def kw(self):
        k, v, ln = self.peek()
        return wlit(v) if k == "word" else (v if k == "op" else None)

    def next(self):
        t = self.peek()
        self.i += 1
        return t

    def err(self, msg):
        raise ShellError("line %s: %s" % (self.peek()[2], msg))

    def skip_nl(self):
        while self.peek()[0] == "nl" or (self.peek()[0] == "op" and self.peek()[1] == ";"):
            self.i += 1

    def expect(self, word):
        if self.kw() != word:
            self.err("expected `%s`, found %r" % (word, self.peek()[1]))
        self.i += 1

    def block(self, ends):
        cmds = []
        while True:
            self.skip_nl()
            if self.peek()[0] == "eof":
                if ends:
                    self.err("unexpected end of script, expected one of %s" % (ends,))
                return cmds
            if self.kw() in ends:
                return cmds
            cmds.append(self.andor())

    def andor(self):
        left = self.pipeline()
        while self.peek()[0] == "op" and self.peek()[1] in ("&&", "||"):
            op = self.next()[1]
            while self.peek()[0] == "nl":
                self.i += 1
            right = self.pipeline()
            left = ("andor", op, left, right)
        if self.peek()[0] == "op" and self.peek()[1] in ("|", "&"):
            self.err("pipelines / background jobs are outside the analysed subset")
        return left

    def pipeline(self):
        k, v, ln = self.peek()
        kw = self.kw()
        if kw == "!":
            self.i += 1
            return ("not", self.pipeline())
        if kw == "if":
            return self.p_if()
        if kw == "for":
            return self.p_for()
        if kw == "case":
            return self.p_case()
        if kw in ("while", "until", "select", "function", "(", "((", "coproc", "time"):
            self.err("`%s` is outside the analysed subset" % kw)
        if kw == "{":
            self.i += 1
            body = self.block(("}",))
            self.expect("}")
            return ("group", body)
        if kw == "[[":
            self.i += 1
            c = self.cond_or()
            if self.kw() != "]]":
                self.err("expected ]]")
            self.i += 1
            return ("test", c, ln)
        # function definition  name() {
        if k == "word" and wlit(v) and self.i + 2 < len(self.toks) and self.toks[self.i + 1][:2] == ("op", "(") and self.toks[self.i + 2][:2] == ("op", ")"):
            name = wlit(v)
            self.i += 3
            while self.peek()[0] == "nl":
                self.i += 1
            self.expect("{")
            body = self.block(("}",))
            self.expect("}")
            return ("func", name, body)
        return self.simple()

    def simple(self):
        words, assigns, redirs, here = [], [], [], None
        ln = self.peek()[2]
        while True:
            k, v, l2 = self.peek()
            if k == "arr":
                self.i += 1
                if words and wlit(words[0]) not in ("local", "declare", "readonly"):
                    self.err("array literal in argument position")
                assigns.append(("arr",) + v)
                continue
            if k == "word":
                lit = v[0][1] if v and v[0][0] == "lit" and not v[0][2] else ""
                m = re.match(r"([A-Za-z_][A-Za-z0-9_]*)(\+?)=", lit)
                if m and (not words or wlit(words[0]) in ("local", "declare", "readonly", "export")):
                    self.i += 1
                    rest = [("lit", lit[m.end():], False)] + list(v[1:]) if lit[m.end():] else list(v[1:])
                    assigns.append(("scalar", m.group(1), bool(m.group(2)), rest, bool(words)))
                    continue
                self.i += 1
                words.append(v)
                continue
            if k == "op" and v in (">&2", "2>&1", "1>&2"):
                self.i += 1
                redirs.append(v)
                continue
            if k == "op" and v == "<<<":
                self.i += 1
                k2, v2, _ = self.next()
                if k2 != "word":
                    self.err("here-string needs a word")
                here = v2
                continue
            if k == "op" and v in ("<", ">"):
                self.err("file redirection is outside the analysed subset")
            break
        if not words and not assigns:
            self.err("unexpected token %r" % (self.peek()[1],))
        return ("simple", words, assigns, here, ln)

    def p_if(self):
        self.expect("if")
        arms = []
        cond = self.block(("then",))
        self.expect("then")
        body = self.block(("elif", "else", "fi"))
        arms.append((cond, body))
        els = []
        while True:
            kw = self.kw()
            if kw == "elif":
                self.i += 1
                c = self.block(("then",))
                self.expect("then")
                b = self.block(("elif", "else", "fi"))
                arms.append((c, b))
            elif kw == "else":
                self.i += 1
                els = self.block(("fi",))
            else:
                self.expect("fi")
                break
        return ("if", arms, els)

    def p_for(self):
        self.expect("for")
        k, v, ln = self.next()
        name = wlit(v) if k == "word" else None
        if not name:
            self.err("for needs a variable name")
        words = None
        if self.kw() == "in":
            self.i += 1
            words = []
            while self.peek()[0] == "word":
                words.append(self.next()[1])
        self.skip_nl()
        self.expect("do")
        body = self.block(("done",))
        self.expect("done")
        return ("for", name, words, body)

    def p_case(self):
        self.expect("case")
        k, v, ln = self.next()
        if k != "word":
            self.err("case needs a word")
        self.skip_nl()
        self.expect("in")
        arms = []
        while True:
            self.skip_nl()
            if self.kw() == "esac":
                self.i += 1
                break
            if self.peek()[:2] == ("op", "("):
                self.i += 1
            pats = []
            while True:
                k2, v2, _ = self.next()
                if k2 != "word":
                    self.err("case pattern expected")
                pats.append(v2)
                if self.peek()[:2] == ("op", "|"):
                    self.i += 1
                    continue
                break
            if self.peek()[:2] != ("op", ")"):
                self.err("expected ) after case pattern")
            self.i += 1
            body = []
            while True:
                self.skip_nl_only()
                if self.peek()[:2] == ("op", ";;"):
                    self.i += 1
                    break
                if self.kw() == "esac":
                    break
                body.append(self.andor())
                if self.peek()[:2] == ("op", ";"):
                    self.i += 1
            arms.append((pats, body))
        return ("case", v, arms)

    def skip_nl_only(self):
        while self.peek()[0] == "nl":
            self.i += 1

    # [[ ... ]]
    def cond_or(self):
        left = self.cond_and()
        while self.peek()[:2] == ("op", "||"):
            self.i += 1
            left = ("or", left, self.cond_and())
        return left

    def cond_and(self):
        left = self.cond_not()
        while self.peek()[:2] == ("op", "&&"):
            self.i += 1
            left = ("and", left, self.cond_not())
        return left

    def cond_not(self):
        if self.kw() == "!":
            self.i += 1
            return ("cnot", self.cond_not())
        if self.peek()[:2] == ("op", "("):
            self.i += 1
            c = self.cond_or()
            if self.peek()[:2] != ("op", ")"):
                self.err("expected ) in [[ ]]")
            self.i += 1
            return c
        k, v, ln = self.next()
        if k != "word":
            self.err("unexpected token in [[ ]]")
        u = wlit(v)
        if u in ("-n", "-z"):
            k2, v2, _ = self.next()
            if k2 != "word":
                self.err("operand expected after %s" % u)
            return (u, v2)
        if u and re.fullmatch(r"-[a-zA-Z]", u):
            self.err("[[ %s ]] is outside the analysed subset" % u)
        nk, nv, _ = self.peek()
        op = wlit(nv) if nk == "word" else None
        if op in ("==", "=", "!=", "-eq", "-ne", "-gt", "-ge", "-lt", "-le"):
            self.i += 1
            k3, v3, _ = self.next()
            if k3 != "word":
                self.err("operand expected after %s" % op)
            return (op, v, v3)
        if nk == "op" and nv in ("<", ">"):
            self.err("string ordering in [[ ]] is outside the analysed subset")
        if op == "=~":
            self.err("regex match is outside the analysed subset")
        return ("-n", v)


# ------------------------------------------------------------------------------------------------ interpreter
class Exit(Exception):
    def __init__(self, rc):
        self.rc = rc


class Return(Exception):
    def __init__(self, rc):
        self.rc = rc


class Continue(Exception):
    pass


class Break(Exception):
    pass


class PathCut(Exception):
    pass


PURE = {"echo", "printf", ":", "true"}
MAX_STEPS = 20000


class Path:
    """one execution path under a decision script"""

    def __init__(self, script, prog, inputs, binary):
        self.script = list(script)
        self.pos = 0
        self.trace = []
        self.prog = prog
        self.inputs = inputs          # names treated as abstract inputs
        self.binary = binary
        self.vars = {}
        self.arrays = {}
        self.funcs = {}
        self.posargs = [[]]
        self.locals = []
        self.opts = set()
        self.empty = {}               # origin -> bool
        self.in_set = {}              # origin -> frozenset of literals the token equals one of
        self.not_in = {}              # origin -> set of literals it differs from
        self.invocations = []         # (argv, status)
        self.problems = []
        self.exit = None
        self.steps = 0
        self.cond_depth = 0
        self.notes = []

    def choose(self, n, what):
        if self.pos < len(self.script):
            c = self.script[self.pos]
        else:
            c = 0
            self.script.append(0)
        self.pos += 1
        self.trace.append((n, what))
        return c

    # ---- values
    def input_value(self, name):
        if name not in self.empty:
            self.empty[name] = self.choose(2, "empty:%s" % (name,)) == 0
        return () if self.empty[name] else (Tok(name),)

    def get_scalar(self, name, dflt):
        if name.isdigit():
            i = int(name)
            pa = self.posargs[-1]
            v = pa[i - 1] if 1 <= i <= len(pa) else (("script",) if i == 0 else None)
        elif name == "#":
            v = (str(len(self.posargs[-1])),)
        elif name == "?":
            v = ("0",)
            self.notes.append("$? read: treated as 0")
        elif name in self.vars:
            v = self.vars[name]
        elif name in self.inputs or name.startswith("INPUT_"):
            v = self.input_value(name)
        elif name in self.arrays:
            a = self.arrays[name]
            v = a[0] if a else ()
        else:
            v = None
        if dflt is not None:
            if v is None or (dflt[0] == ":-" and len(v) == 0):
                return s_norm((dflt[1],))
            return v
        if v is None:
            if "u" in self.opts:
                self.problems.append(("unbound", "unbound variable $%s read under `set -u`" % name))
                raise Exit(1)
            return ()
        return v

    def expand(self, parts):
        """one source word -> list of abstract strings (fields)"""
        fields = [[]]
        had_quote = False
        for p in parts:
            if p[0] == "lit":
                fields[-1].append(p[1])
                had_quote = had_quote or p[2]
                continue
            _, name, dflt, quoted, kind = p
            had_quote = had_quote or quoted
            if kind == "alen":
                fields[-1].append(str(len(self.arrays.get(name, []))))
                continue
            if kind in ("aall", "astar") or (kind == "scalar" and name in ("@", "*")):
                elems = self.posargs[-1] if name in ("@", "*") else self.arrays.get(name, [])
                if name not in ("@", "*") and name not in self.arrays and "u" in self.opts and False:
                    pass
                if kind == "astar" or name == "*":
                    j = []
                    for k2, e in enumerate(elems):
                        if k2:
                            j.append(" ")
                        j.extend(e)
                    fields[-1].extend(j)
                    continue
                if not quoted:
                    for e in elems:
                        if s_lit(e) is None or re.search(r"[\s*?\[]", s_lit(e) or ""):
                            raise ShellError("unquoted array expansion ${%s[@]} of non-literal elements (word splitting)" % name)
                for k2, e in enumerate(elems):
                    if k2:
                        fields.append([])
                    fields[-1].extend(e)
                if not elems:
                    fields[-1].append(None)      # marker: expands to nothing
                continue
            v = self.get_scalar(name, dflt)
            if not quoted:
                lit = s_lit(v)
                if lit is None:
                    if len(v) == 1 and isinstance(v[0], Tok) and len(parts) == 1:
                        fields[-1].append(Splice(v[0].origin))
                        continue
                    raise ShellError("unquoted expansion of $%s mixes with other text (word splitting of an opaque value)" % name)
                ws = lit.split()
                if re.search(r"[*?\[]", lit):
                    raise ShellError("unquoted expansion of $%s may glob" % name)
                if not ws:
                    fields[-1].append(None)
                    continue
                if lit[:1].isspace() and fields[-1]:
                    fields.append([])
                for k2, w in enumerate(ws):
                    if k2:
                        fields.append([])
                    fields[-1].append(w)
                if lit[-1:].isspace():
                    fields.append([None])
                continue
            fields[-1].extend(v)
        out = []
        for f in fields:
            real = [a for a in f if a is not None]
            if not real and None in f and not had_quote:
                continue
            if not real and not had_quote and not f:
                if len(fields) == 1 and not parts:
                    continue
            if not f and not had_quote:
                continue
            out.append(s_norm(real))
        return out

    def expand1(self, parts):
        fs = self.expand(parts)
        if len(fs) == 0:
            return ()
        if len(fs) != 1:
            raise ShellError("word expands to %d fields where one is needed" % len(fs))
        if any(isinstance(a, Splice) for a in fs[0]):
            raise ShellError("unquoted opaque expansion where a single string is needed")
        return fs[0]

    # ---- tests on abstract strings
    def is_empty(self, v):
        return len(v) == 0

    def eq_lit(self, v, lits):
        """does abstract string v equal one of the literals?  forks on opaque tokens"""
        lits = frozenset(lits)
        sl = s_lit(v)
        if sl is not None:
            return sl in lits
        if len(v) == 1 and isinstance(v[0], Tok):
            o = v[0].origin
            cand = frozenset(x for x in lits if x != "")
            if o in self.in_set:
                cur = self.in_set[o]
                if cur <= cand:
                    return True
                if not (cur & cand):
                    return False
                if self.choose(2, "in:%s:%s" % (o, sorted(cand))) == 0:
                    self.in_set[o] = cur & cand
                    return True
                self.in_set[o] = cur - cand
                return False
            cand = cand - self.not_in.get(o, set())
            if not cand:
                return False
            if self.choose(2, "in:%s:%s" % (o, sorted(cand))) == 0:
                self.in_set[o] = cand
                return True
            self.not_in.setdefault(o, set()).update(cand)
            return False
        # mixed literal/opaque text: cannot equal a literal unless lengths allow; decide conservatively by forking
        return self.choose(2, "eq-mixed:%r" % (v,)) == 0

    def pattern(self, parts):
        """case / == pattern -> ('any',) | ('lits', [..])"""
        if any(p[0] != "lit" for p in parts):
            raise ShellError("non-literal pattern")
        if len(parts) == 1 and parts[0][1] == "*" and not parts[0][2]:
            return ("any",)
        txt = ""
        for p in parts:
            if not p[2] and re.search(r"[*?\[]", p[1]):
                raise ShellError("glob pattern `%s` is outside the analysed subset" % p[1])
            txt += p[1]
        return ("lits", [txt])

    def cond(self, c):
        k = c[0]
        if k in ("-n", "-z"):
            v = self.expand1(c[1])
            e = self.is_empty(v)
            return (not e) if k == "-n" else e
        if k == "and":
            return self.cond(c[1]) and self.cond(c[2])
        if k == "or":
            return self.cond(c[1]) or self.cond(c[2])
        if k == "cnot":
            return not self.cond(c[1])
        if k in ("==", "=", "!="):
            v = self.expand1(c[1])
            pat = self.pattern(c[2]) if all(p[0] == "lit" for p in c[2]) else None
            if pat is None:
                w = self.expand1(c[2])
                lw = s_lit(w)
                if lw is None:
                    if v == w:
                        r = True
                    else:
                        raise ShellError("comparison of two opaque strings")
                else:
                    r = self.eq_lit(v, [lw])
            elif pat[0] == "any":
                r = True
            else:
                r = self.eq_lit(v, pat[1])
            return r if k != "!=" else not r
        if k in ("-eq", "-ne", "-gt", "-ge", "-lt", "-le"):
            a, b = s_lit(self.expand1(c[1])), s_lit(self.expand1(c[2]))
            try:
                a, b = int(a), int(b)
            except (TypeError, ValueError):
                raise ShellError("arithmetic comparison of non-literal operands")
            return {"-eq": a == b, "-ne": a != b, "-gt": a > b, "-ge": a >= b, "-lt": a < b, "-le": a <= b}[k]
        raise ShellError("condition %r" % (k,))

    # ---- execution
    def run_block(self, cmds):
        rc = 0
        for c in cmds:
            rc = self.run(c)
        return rc

    def checked(self, rc):
        """errexit"""
        if rc != 0 and "e" in self.opts and self.cond_depth == 0:
            raise Exit(rc)
        return rc

    def run(self, c):
        self.steps += 1
        if self.steps > MAX_STEPS:
            raise ShellError("step bound exceeded (loop?)")
        k = c[0]
        if k == "simple":
            return self.checked(self.simple(c))
        if k == "test":
            return self.checked(0 if self.cond(c[1]) else 1)
        if k == "andor":
            self.cond_depth += 1
            try:
                l = self.run(c[2])
            finally:
                self.cond_depth -= 1
            if (c[1] == "&&") == (l == 0):
                return self.run(c[3])
            return l
        if k == "not":
            self.cond_depth += 1
            try:
                r = self.run(c[1])
            finally:
                self.cond_depth -= 1
            return 0 if r != 0 else 1
        if k == "group":
            return self.run_block(c[1])
        if k == "func":
            self.funcs[c[1]] = c[2]
            return 0
        if k == "if":
            for cond, body in c[1]:
                self.cond_depth += 1
                try:
                    r = self.run_block(cond)
                finally:
                    self.cond_depth -= 1
                if r == 0:
                    return self.run_block(body)
            return self.run_block(c[2])
        if k == "for":
            if c[2] is None:
                items = list(self.posargs[-1])
            else:
                items = []
                for w in c[2]:
                    items.extend(self.expand(w))
            rc = 0
            for it in items:
                if any(isinstance(a, Splice) for a in it):
                    raise ShellError("for loop over an unquoted opaque expansion")
                self.vars[c[1]] = it
                try:
                    rc = self.run_block(c[3])
                except Continue:
                    continue
                except Break:
                    break
            return rc
        if k == "case":
            v = self.expand1(c[1])
            for pats, body in c[2]:
                lits, anyp = [], False
                for p in pats:
                    pp = self.pattern(p)
                    if pp[0] == "any":
                        anyp = True
                    else:
                        lits += pp[1]
                if anyp or (lits and self.eq_lit(v, lits)):
                    return self.run_block(body)
            return 0
        raise ShellError("command kind %s" % k)

    def assign(self, a, local):
        if a[0] == "arr":
            _, name, app, words = a
            vals = []
            for w in words:
                vals.extend(self.expand(w))
            if local:
                self.save_local(name)
            if app:
                self.arrays.setdefault(name, [])
                self.arrays[name] = self.arrays[name] + vals
            else:
                self.arrays[name] = vals
                self.vars.pop(name, None)
        else:
            _, name, app, rest, _ = a
            v = self.expand1(rest) if rest else ()
            if local:
                self.save_local(name)
            if app:
                v = s_norm(tuple(self.vars.get(name, ())) + tuple(v))
            self.vars[name] = v
            if name not in ("IFS",):
                self.arrays.pop(name, None)

    def save_local(self, name):
        if self.locals:
            fr = self.locals[-1]
            if name not in fr:
                fr[name] = (self.vars.get(name), self.arrays.get(name))

    def simple(self, c):
        _, words, assigns, here, ln = c
        if not words:
            for a in assigns:
                self.assign(a, False)
            return 0
        name = s_lit(self.expand1(words[0]))
        if name is None:
            raise ShellError("line %d: command name is not literal" % ln)
        if name in ("local", "declare", "readonly"):
            for w in words[1:]:
                nm = wlit(w)
                if nm is None or nm.startswith("-"):
                    if nm and nm.startswith("-"):
                        continue
                    raise ShellError("line %d: unsupported `local` operand" % ln)
                self.save_local(nm)
                self.vars[nm] = ()
                self.arrays.pop(nm, None)
            for a in assigns:
                self.assign(a, True)
            return 0
        # prefix assignments are temporary for the command
        saved = {}
        for a in assigns:
            if a[0] != "scalar":
                raise ShellError("line %d: array prefix assignment" % ln)
            saved[a[1]] = self.vars.get(a[1])
            self.assign(a, False)
        try:
            return self.command(name, words, here, ln)
        finally:
            for k, v in saved.items():
                if v is None:
                    self.vars.pop(k, None)
                else:
                    self.vars[k] = v

    def command(self, name, words, here, ln):
        args = []
        for w in words[1:]:
            args.extend(self.expand(w))
        if name in self.funcs:
            self.posargs.append(args)
            self.locals.append({})
            try:
                rc = self.run_block(self.funcs[name])
            except Return as r:
                rc = r.rc
            finally:
                self.posargs.pop()
                for nm, (v, a) in self.locals.pop().items():
                    if v is None:
                        self.vars.pop(nm, None)
                    else:
                        self.vars[nm] = v
                    if a is None:
                        self.arrays.pop(nm, None)
                    else:
                        self.arrays[nm] = a
            return rc
        if name == self.binary:
            # a failing CLI ends the script with its status when errexit applies here; otherwise the failure path is explored
            if "e" in self.opts and self.cond_depth == 0:
                self.invocations.append((args, "propagates"))
                return 0
            st = "ok" if self.choose(2, "cli-status") == 0 else "fail"
            self.invocations.append((args, st))
            return 0 if st == "ok" else 2
        if name in PURE:
            return 0
        if name == "false":
            return 1
        if name == "set":
            for a in args:
                s = s_lit(a)
                if s is None:
                    raise ShellError("line %d: non-literal `set` operand" % ln)
                if s.startswith("-") and s[1:].isalpha():
                    self.opts |= set(s[1:])
                elif s == "pipefail" or s == "-o":
                    continue
                elif s.startswith("+") and s[1:].isalpha():
                    self.opts -= set(s[1:])
                else:
                    raise ShellError("line %d: `set %s`" % (ln, s))
            return 0
        if name in ("exit", "return"):
            rc = 0
            if args:
                s = s_lit(args[0])
                if s is None or not s.isdigit():
                    raise ShellError("line %d: non-literal exit status" % ln)
                rc = int(s)
            elif self.invocations and name == "exit":
                rc = 2 if self.invocations[-1][1] == "fail" else 0
            raise (Exit if name == "exit" else Return)(rc)
        if name == "continue":
            raise Continue()
        if name == "break":
            raise Break()
        if name == "shift":
            self.posargs[-1] = self.posargs[-1][1:]
            return 0
        if name == "read":
            flags = [s_lit(a) for a in args]
            if "-a" not in flags or here is None:
                raise ShellError("line %d: `read` form outside the analysed subset" % ln)
            target = flags[flags.index("-a") + 1]
            ifs = s_lit(self.vars["IFS"]) if "IFS" in self.vars else " \t\n"
            src = self.expand1(here)
            self.save_local(target) if False else None
            lit = s_lit(src)
            if lit is not None:
                if not lit:
                    self.arrays[target] = []
                else:
                    ws = [x for x in re.split("[" + re.escape(ifs) + "]+", lit) if x != ""]
                    self.arrays[target] = [(x,) for x in ws]
                return 0
            if not (len(src) == 1 and isinstance(src[0], Tok)):
                raise ShellError("line %d: `read` of mixed text" % ln)
            o = src[0].origin
            n = 1 + self.choose(2, "fields:%s" % (o,))
            may_be_empty = bool(ifs.strip())
            elems = []
            for i in range(n):
                eo = (o, i) if not isinstance(o, tuple) else (o[0], o[1] * 10 + i)
                if may_be_empty and n > 1 and self.choose(2, "empty-field:%s:%d" % (o, i)) == 1:
                    elems.append(())
                else:
                    elems.append((Tok(eo),))
            if all(len(e) == 0 for e in elems):
                raise PathCut()
            self.arrays[target] = elems
            self.split_of = getattr(self, "split_of", {})
            self.split_of[o] = (ifs, elems)
            return 0
        self.problems.append(("unknown-command/%s" % name, "line %d: command `%s` is outside the analysed subset; its effect on the arguments is unknown" % (ln, name)))
        return 0


def analyse(text, binary="pickle-fuzzer", inputs=(), max_paths=200000):
    """-> (paths, problems).  Each path: dict(empty, in_set, not_in, invocations, rc, problems, split_of)"""
    try:
        prog = Parser(text).block(())
    except ShellError as e:
        return [], [("parse", str(e))]
    paths = []
    problems = []
    stack = [[]]
    n = 0
    while stack:
        script = stack.pop()
        n += 1
        if n > max_paths:
            problems.append(("path-bound", "more than %d paths" % max_paths))
            break
        p = Path(script, prog, set(inputs), binary)
        rc = 0
        cut = False
        try:
            rc = p.run_block(prog)
        except Exit as e:
            rc = e.rc
        except PathCut:
            cut = True
        except (Return, Continue, Break):
            p.problems.append(("control", "return/continue/break outside a function or loop"))
        except ShellError as e:
            p.problems.append(("unsupported", str(e)))
        # schedule siblings
        for i in range(len(script), len(p.trace)):
            for alt in range(1, p.trace[i][0]):
                stack.append(p.script[:i] + [alt])
        if cut:
            continue
        paths.append({"empty": dict(p.empty), "in_set": dict(p.in_set), "not_in": {k: set(v) for k, v in p.not_in.items()},
                      "invocations": p.invocations, "rc": rc, "problems": p.problems, "split_of": getattr(p, "split_of", {}),
                      "errexit": "e" in p.opts})
    return paths, problems
