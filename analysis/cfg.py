"""Per-body CFG helpers: successors, reachability avoiding edges, dominators."""


def successors(body):
    out = []
    for b in body["blocks"]:
        t = b["t"]
        k = t["k"]
        if b["cleanup"]:
            out.append([])
        elif k == "goto":
            out.append([t["t"]])
        elif k == "switch":
            out.append([x[1] for x in t["targets"]] + [t["otherwise"]])
        elif k in ("drop", "assert"):
            out.append([t["t"]])
        elif k == "call":
            out.append([t["t"]] if t["t"] is not None else [])
        else:
            out.append([])
    return out


def reachable_from(succ, start, forbidden_edges=()):
    seen = set()
    work = [start]
    fe = set(forbidden_edges)
    while work:
        u = work.pop()
        if u in seen:
            continue
        seen.add(u)
        for v in succ[u]:
            if (u, v) not in fe:
                work.append(v)
    return seen


def dominators(succ, entry=0):
    n = len(succ)
    reach = reachable_from(succ, entry)
    pred = [[] for _ in range(n)]
    for u in reach:
        for v in succ[u]:
            pred[v].append(u)
    dom = {u: set(reach) for u in reach}
    dom[entry] = {entry}
    changed = True
    order = sorted(reach)
    while changed:
        changed = False
        for u in order:
            if u == entry:
                continue
            ps = [dom[p] for p in pred[u] if p in dom]
            new = set.intersection(*ps) if ps else set()
            new = new | {u}
            if new != dom[u]:
                dom[u] = new
                changed = True
    return dom


def calls_in(body):
    """[(block index, term)] of call terminators in non-cleanup blocks"""
    return [(i, b["t"]) for i, b in enumerate(body["blocks"]) if not b["cleanup"] and b["t"]["k"] == "call" and "path" in b["t"]["f"]]


def callee_path(term):
    f = term["f"]
    return (f.get("res") or {}).get("path") or f.get("path")
