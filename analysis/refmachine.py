"""E3: the kind-level flat-stack reference machine and the inductive obligations O1..O4
(DESIGN.md 3.4).  Input: LeafSum records from trans.py; oracle: reference/pvm_spec.json."""
import itertools
import json
import os

from values import Sym, is_sym, bounds

HERE = os.path.dirname(os.path.abspath(__file__))
REF = os.path.join(os.path.dirname(HERE), "reference")


def norm(name):
    return name.replace("_", "").upper()


class Spec:
    def __init__(self):
        self.table = json.load(open(os.path.join(REF, "opcodes.json")))["opcodes"]
        doc = json.load(open(os.path.join(REF, "pvm_spec.json")))
        self.ops = doc["ops"]
        self.alpha = doc["alpha"]
        self.by_norm = {norm(o["name"]): o for o in self.table}
        self.by_code = {o["code"]: o for o in self.table}

    def row(self, variant):
        """reference row for an OpcodeKind variant name (by normalised name)"""
        return self.by_norm.get(norm(variant))

    def spec(self, variant):
        r = self.row(variant)
        return self.ops[r["name"]] if r else None


def classes_of(spec, cell, assign):
    ks = cell["kinds"]
    if "Mark" in ks and len(ks) > 1 and cell["kv"] is not None:
        a = assign.get(cell["kv"])
        if a == "mark":
            ks = {"Mark"}
        elif a == "nonmark":
            ks = set(ks) - {"Mark"}
    out = set()
    for k in ks:
        if k not in spec.alpha:
            raise KeyError("StackObject variant %s has no kind class (reference/pvm_spec.json alpha)" % k)
        out.add(spec.alpha[k])
    return out


def is_mark(spec, cell, assign):
    c = classes_of(spec, cell, assign)
    if c == {"mark"}:
        return True
    if "mark" not in c:
        return False
    raise AssertionError("undetermined mark status")


def assignments(leaf):
    kvs = []
    seen = set()
    for cell in list(leaf.pre) + list(leaf.post):
        if cell["kv"] is not None and "Mark" in cell["kinds"] and len(cell["kinds"]) > 1 and cell["kv"] not in seen:
            seen.add(cell["kv"])
            kvs.append(cell["kv"])
    if len(kvs) > 12:
        raise OverflowError("too many undetermined cells")
    for combo in itertools.product(("mark", "nonmark"), repeat=len(kvs)):
        yield dict(zip(kvs, combo))


class Finding:
    def __init__(self, rule, key, msg, leaf=None, detail=None):
        self.rule, self.key, self.msg, self.leaf, self.detail = rule, key, msg, leaf, detail

    def __repr__(self):
        return "%s %s: %s" % (self.rule, self.key, self.msg)


def o1_check(spec, leaf):
    """guard => reference depth/MARK precondition.  Returns list of problems (strings)."""
    sp = spec.spec(leaf.op)
    probs = []
    P = leaf.pre
    for a in assignments(leaf):
        if sp["mark"]:
            dm = None
            for d, c in enumerate(P):
                if is_mark(spec, c, a):
                    dm = d
                    break
            if dm is None:
                probs.append("no MARK established in the inspected window (depth %d, base %s)" % (len(P), "open" if leaf.base_open else "closed"))
                continue
            if sp["below_mark"] and dm + 1 >= len(P):
                probs.append("item below the MARK not established")
            if dm < sp["min_above"]:
                probs.append("fewer than %d items above the MARK" % sp["min_above"])
        else:
            if len(P) < sp["need"]:
                probs.append("depth >= %d not established (inspected depth %d, base %s)" % (sp["need"], len(P), "open" if leaf.base_open else "closed"))
    return sorted(set(probs))


def o2_check(spec, leaf, clauses=None):
    """guard => operand kinds (C03 clauses) and top_not_mark (C02/C03)"""
    sp = spec.spec(leaf.op)
    probs = []
    P = leaf.pre
    for a in assignments(leaf):
        dm = None
        for d, c in enumerate(P):
            if is_mark(spec, c, a):
                dm = d
                break
        for cl in sp["kinds"]:
            if clauses is not None and not any(k in cl for k in clauses):
                continue
            if "at" in cl:
                d = cl["at"]
                if d >= len(P):
                    probs.append("operand at depth %d not inspected" % d)
                    continue
                cs = classes_of(spec, P[d], a)
                if not cs <= set(cl["is"]):
                    probs.append("operand at depth %d may be %s, required %s" % (d, "/".join(sorted(cs - set(cl["is"]))), "/".join(cl["is"])))
            elif "below_mark" in cl:
                if dm is None or dm + 1 >= len(P):
                    probs.append("operand below the MARK not inspected")
                    continue
                cs = classes_of(spec, P[dm + 1], a)
                if not cs <= set(cl["below_mark"]):
                    probs.append("operand below MARK may be %s, required %s" % ("/".join(sorted(cs - set(cl["below_mark"]))), "/".join(cl["below_mark"])))
            elif "above_even" in cl:
                if dm is None:
                    probs.append("MARK not established for parity clause")
                elif dm % 2 != 0:
                    probs.append("odd number (%d) of operands above the MARK" % dm)
            elif "first_above" in cl:
                if dm is None or dm < 1:
                    probs.append("no operand directly above the MARK")
                    continue
                cs = classes_of(spec, P[dm - 1], a)
                if not cs <= set(cl["first_above"]):
                    probs.append("operand directly above MARK may be %s, required %s" % ("/".join(sorted(cs - set(cl["first_above"]))), "/".join(cl["first_above"])))
            elif "top_not_mark" in cl:
                if not P:
                    probs.append("top of stack not inspected")
                elif "mark" in classes_of(spec, P[0], a):
                    probs.append("top of stack may be a MARK")
    return sorted(set(probs))


def o3_check(spec, leaf):
    """sim effect == reference effect (stack part).  Assumes O1 holds on the leaf (else reports)."""
    sp = spec.spec(leaf.op)
    probs = []
    P = leaf.pre
    for a in assignments(leaf):
        # reference pre-stack bottom-first tokens
        pre = [("R", c) for c in reversed(P)]
        npop = None
        if sp["mark"]:
            dm = None
            for d, c in enumerate(P):
                if is_mark(spec, c, a):
                    dm = d
                    break
            if dm is None:
                probs.append("reference effect undefined: no MARK in window")
                continue
            npop = dm + 1 + (1 if sp.get("pop_below") else 0)
        else:
            npop = sp["pop"]
        if npop > len(pre):
            probs.append("reference pops %d but only %d inspected" % (npop, len(pre)))
            continue
        top_tok = pre[-1] if pre else None
        post = pre[:len(pre) - npop]
        push = sp["push"]
        if push == "alias_top":
            post.append(top_tok)
        elif push == "memo":
            post.append(("M", None))
        elif push:
            post.append(("C", push))
        sim = leaf.post
        if len(sim) != len(post):
            probs.append("depth differs: simulation %+d, reference %+d" % (len(sim) - len(P), len(post) - len(P)))
            continue
        for i, (tok, s) in enumerate(zip(post, sim)):
            scs = classes_of(spec, s, a)
            pos = len(post) - 1 - i
            if tok[0] == "R":
                c = tok[1]
                if s["cell"] == c["cell"] or (s["kv"] is not None and s["kv"] == c["kv"]):
                    continue
                rcs = classes_of(spec, c, a)
                if ("mark" in rcs) != ("mark" in scs) or (len(rcs | scs) != 1):
                    probs.append("slot %d from top: simulation %s vs reference object of kind %s" % (pos, "/".join(sorted(scs)), "/".join(sorted(rcs))))
            elif tok[0] == "C":
                cls = tok[1]
                if cls == "mark":
                    if scs != {"mark"}:
                        probs.append("slot %d from top: reference MARK, simulation %s" % (pos, "/".join(sorted(scs))))
                elif cls == "any":
                    if "mark" in scs:
                        probs.append("slot %d from top: reference non-MARK object, simulation may be MARK" % pos)
                elif scs != {cls}:
                    probs.append("slot %d from top: reference %s, simulation %s" % (pos, cls, "/".join(sorted(scs))))
            elif tok[0] == "M":
                if "mark" in scs:
                    probs.append("slot %d from top: memoised object, simulation may be MARK" % pos)
                elif s["origin"] != "memo" and not (s["kvl"] or "").startswith("m"):
                    probs.append("slot %d from top: simulation did not push the memoised object" % pos)
    return sorted(set(probs))


def memo_effect_check(spec, leaf):
    """sim memo effect vs reference: exactly one store for PUT family/MEMOIZE of the top object, none otherwise"""
    sp = spec.spec(leaf.op)
    puts = [e for e in leaf.events if e[0] == "memo_put"]
    probs = []
    if sp["memo"] in ("put", "memoize"):
        if len(puts) != 1:
            probs.append("simulation stores %d memo entries, reference stores 1" % len(puts))
        else:
            _, k, cell, status, nbefore = puts[0]
            # the stored object must be (a copy of) the pre-state top
            top = leaf.pre[0] if leaf.pre else None
            if sp["memo"] == "memoize":
                if not (isinstance(k, int) and k == nbefore):
                    probs.append("MEMOIZE stores under %r, reference under len(memo)=%r" % (k, nbefore))
    else:
        if puts:
            probs.append("simulation stores into the memo, reference does not")
    return probs
