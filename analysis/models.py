"""Models of std / dependency callees for the MIR abstract interpreter.

Each model is keyed by the *resolved* def-path exported by the driver.  A callee without a
model raises Unanalysable (fail closed).  Models never execute repository code.
"""
import re

from values import (Agg, Box_, Bytes, FnItem, INT_TYPES, OPTION, Opaque, PathEnd, Payload, RESULT, Ref, Sym,
                    UNINIT, Unanalysable, apply_escapes, bounds, err, is_none, is_some, is_sym, none, ok,
                    part_len, some, ty_range, unit, wrap)

MODELS = {}
REGEX_MODELS = []


def model_re(pattern):
    import re as _re

    def deco(fn):
        REGEX_MODELS.append((_re.compile(pattern), fn))
        return fn
    return deco


def model(*paths):
    def deco(fn):
        for p in paths:
            MODELS[p] = fn
        return fn
    return deco


def deref(I, v):
    """load through a reference (or return the value itself)"""
    while isinstance(v, Ref):
        v = I.load(v)
    return v


def deref1(I, v):
    return I.load(v) if isinstance(v, Ref) else v


# ========================================================================================
# concrete growable vector (payload irrelevant containers, opcode lists, ...)
class VecObj:
    def __init__(self, elems=None, ety=None):
        self.elems = list(elems or [])
        self.ety = ety

    def __repr__(self):
        return "Vec%r" % (self.elems[:10],)

    def length(self, I):
        return len(self.elems)

    def index_get(self, I, idx):
        if is_sym(idx):
            lo, hi = bounds(idx)
            if lo < 0 or hi >= len(self.elems):
                if I.truth(Sym("Ge", (idx, len(self.elems)), "bool")):
                    I.run.panics.append(("index_oob", I.where()))
                    raise PathEnd("panic", "index out of bounds")
            if self.elems and not all(isinstance(e, (int, float)) for e in self.elems):
                return pick_elem_indexed(I, self.elems, idx)
            return ElemOf(self, idx)
        if 0 <= idx < len(self.elems):
            return self.elems[idx]
        I.run.panics.append(("index_oob", I.where()))
        raise PathEnd("panic", "index out of bounds: %r of %d" % (idx, len(self.elems)))

    def index_set(self, I, idx, val):
        if is_sym(idx):
            lo, hi = bounds(idx)
            if lo < 0 or hi >= len(self.elems):
                if I.truth(Sym("Ge", (idx, len(self.elems)), "bool")):
                    I.run.panics.append(("index_oob", I.where()))
                    raise PathEnd("panic", "index out of bounds")
            self.elems = [Sym("updated", (e, val) if is_sym(e) or is_sym(val) else (), "u8") if True else e for e in self.elems]
            self.sym_written = True
            return
        if 0 <= idx < len(self.elems):
            self.elems[idx] = val
            return
        raise PathEnd("panic", "index out of bounds")


class ElemOf(Sym):
    """An element chosen by a symbolic index from a concrete collection."""

    def __init__(self, coll, idx):
        elems = coll.elems if isinstance(coll, VecObj) else coll
        ints = [e for e in elems if isinstance(e, int) and not isinstance(e, bool)]
        if elems and len(ints) == len(elems):
            Sym.__init__(self, "elem_of", (idx,), "usize", min(ints), max(ints))
        else:
            Sym.__init__(self, "elem_of", (idx,), "usize")
        self.attrs["coll"] = coll
        self.attrs["elems"] = list(elems)


def as_elems(I, v):
    """Python list view of a slice-like value (VecObj, array Agg, literal Bytes)."""
    if isinstance(v, VecObj):
        return v.elems
    if isinstance(v, Agg) and v.adt == "array":
        return v.fields
    if isinstance(v, SliceView):
        base = as_elems(I, v.base)
        return base[v.lo:v.hi]
    if isinstance(v, IntBytes):
        return as_elems(I, v.to_bytes(I))
    if isinstance(v, Bytes):
        out = []
        for p in v.parts:
            if p[0] == "lit":
                out.extend(p[1])
            elif p[0] == "u8":
                out.append(p[1])
            elif p[0] == "int":
                _, val, ty, endian, lo, hi = p
                if isinstance(val, int) and ty in INT_TYPES:
                    n = INT_TYPES[ty][0] // 8
                    bs = (val & ((1 << (8 * n)) - 1)).to_bytes(n, "little" if endian == "le" else "big")
                    out.extend(bs[lo:hi])
                else:
                    for i in range(lo, hi):
                        out.append(Sym("byte", (val, i), "u8", attrs={"of": p, "src": (val, ty, endian, hi - lo if lo == 0 else None)}))
            else:
                raise I.unanalysable("element view of symbolic byte string %r" % (v,))
        return out
    raise I.unanalysable("element view of %r" % (type(v).__name__,))


class SliceView:
    def __init__(self, base, lo, hi):
        self.base, self.lo, self.hi = base, lo, hi

    def length(self, I):
        return self.hi - self.lo

    def index_get(self, I, idx):
        return VecObj(as_elems(I, self)).index_get(I, idx)

    def copy_from_slice(self, I, src):
        """dst[lo..hi].copy_from_slice(src) for a window of an array / vector with concrete bounds"""
        src = deref(I, src)
        n = self.hi - self.lo
        m = length_of(I, src)
        if I.truth(I.binop("Ne", m, n, "usize")):
            I.run.panics.append(("copy_from_slice_len", I.where()))
            raise PathEnd("panic", "copy_from_slice length mismatch")
        vals = [byte_at(I, src, i) for i in range(n)] if isinstance(src, Bytes) else list(as_elems(I, src))[:n]
        base = self.base
        tgt = base.fields if (isinstance(base, Agg) and base.adt == "array") else (base.elems if isinstance(base, VecObj) else None)
        if tgt is None:
            raise I.unanalysable("copy_from_slice into a window of %r" % type(base).__name__)
        for i, x in enumerate(vals):
            tgt[self.lo + i] = x


def length_of(I, v):
    if hasattr(v, "length"):
        return v.length(I)
    if isinstance(v, Agg) and v.adt == "array":
        return len(v.fields)
    if isinstance(v, Bytes):
        return bytes_len(I, v)
    raise I.unanalysable("length of %r" % (type(v).__name__,))


def bytes_len(I, b):
    lo, hi = b.fixed_len()
    if lo == hi:
        return lo
    if len(b.parts) == 1 and b.parts[0][0] == "pay" and not b.parts[0][1].escapes and is_sym(b.parts[0][1].len):
        # Payload.len is the length in BYTES (charsets are byte sets, multi-byte characters contribute their UTF-8 bytes)
        return b.parts[0][1].len  # canonical length symbol of the payload
    s = Sym("len", (), "usize", lo, hi, attrs={"of": b})
    # stable identity: cache on the object
    key = tuple(id(p) for p in b.parts)
    cache = getattr(I.models, "_lencache", None)
    if cache is None:
        cache = I.models._lencache = {}
    ck = (id(I.run), b.id, key)
    if ck in cache:
        return cache[ck]
    cache[ck] = s
    return s


# ========================================================================================
# iterators
class It:
    """Abstract iterator: a Python generator-like object with next()/next_back()."""
    kind = "iter"

    def next(self, I):
        raise NotImplementedError

    def next_back(self, I):
        raise I.unanalysable("next_back on %s" % type(self).__name__)


class ListIt(It):
    """iterator over a concrete Python list; yields `wrap(elem, i)`"""

    def __init__(self, elems, by_ref=False, owner=None):
        self.elems = elems
        self.lo = 0
        self.hi = len(elems)
        self.by_ref = by_ref
        self.owner = owner

    def _mk(self, i):
        if self.by_ref:
            return Ref(ListSlot(self.elems, i), ())
        return self.elems[i]

    def next(self, I):
        if self.lo < self.hi:
            self.lo += 1
            return some(self._mk(self.lo - 1))
        return none()

    def next_back(self, I):
        if self.lo < self.hi:
            self.hi -= 1
            return some(self._mk(self.hi))
        return none()

    def remaining(self, I):
        return self.hi - self.lo


class ListSlot(Box_):
    """Box view of one slot of a Python list (so that &elem references work)."""
    __slots__ = ("lst", "i")

    def __init__(self, lst, i):
        self.lst = lst
        self.i = i
        self.name = "elem%d" % i

    @property
    def v(self):
        return self.lst[self.i]

    @v.setter
    def v(self, val):
        self.lst[self.i] = val


class RevIt(It):
    def __init__(self, inner):
        self.inner = inner

    def next(self, I):
        return self.inner.next_back(I)

    def next_back(self, I):
        return self.inner.next(I)


class EnumerateIt(It):
    def __init__(self, inner):
        self.inner = inner
        self.count = 0

    def next(self, I):
        r = self.inner.next(I)
        if is_some(r):
            c = self.count
            self.count += 1
            return some(Agg("tuple", None, [c, r.fields[0]]))
        return r

    def next_back(self, I):
        # index = count + remaining_len - 1
        if not hasattr(self.inner, "back_index"):
            if hasattr(self.inner, "remaining"):
                rem = self.inner.remaining(I)
                r = self.inner.next_back(I)
                if is_some(r):
                    return some(Agg("tuple", None, [self.count + rem - 1, r.fields[0]]))
                return r
            raise I.unanalysable("Enumerate::next_back over %s" % type(self.inner).__name__)
        idx = self.inner.back_index(I)
        r = self.inner.next_back(I)
        if is_some(r):
            return some(Agg("tuple", None, [idx, r.fields[0]]))
        return r


class MapIt(It):
    def __init__(self, inner, f):
        self.inner, self.f = inner, f

    def next(self, I):
        r = self.inner.next(I)
        if is_some(r):
            return some(I.call_closure(self.f, [r.fields[0]]))
        return r


class FilterIt(It):
    def __init__(self, inner, f):
        self.inner, self.f = inner, f

    def next(self, I):
        while True:
            r = self.inner.next(I)
            if not is_some(r):
                return r
            x = r.fields[0]
            keep = I.truth(I.call_closure(self.f, [Ref(Box_(x, "filter_item"), ())]))
            if keep:
                return some(x)


class CopiedIt(It):
    def __init__(self, inner):
        self.inner = inner

    def next(self, I):
        r = self.inner.next(I)
        if is_some(r):
            return some(I.copy_val(deref1(I, r.fields[0])))
        return r


class TakeIt(It):
    def __init__(self, inner, n):
        self.inner, self.n = inner, n

    def next(self, I):
        if is_sym(self.n):
            raise I.unanalysable("take(symbolic) iterated element-wise")
        if self.n <= 0:
            return none()
        self.n -= 1
        return self.inner.next(I)



# ----------------------------------------------------------------------------------------
# Loop summarisation: a MIR loop that walks the bytes / chars of a string with a variable-length payload part and only
# appends to byte strings.  The loop body is interpreted once per possible item value (every byte of the payload's
# effective charset; for chars: every ASCII value plus one symbolic non-ASCII character that must be copied through);
# appends are logged instead of applied and become one payload part carrying a per-byte rewriting table ('tbl' escape).
# Everything else the body might do (stores outside the loop frame's temporaries, loop-carried locals, calls of models
# that are not on SUMM_OK, leaving the loop early, positional adaptors) fails closed with Unanalysable.
SUMM_OK = re.compile(r"^(std::vec::Vec::<T, A>::(push|extend_from_slice)|std::string::String::(push|push_str|as_bytes|as_str)"
                     r"|core::str::<impl str>::as_bytes|<std::(string::String|vec::Vec<T, A>) as std::ops::Deref>::deref"
                     r"|<.* as std::iter::Iterator>::next|core::char::methods::<impl char>::(is_\w+|len_utf8|to_ascii_\w+)"
                     r"|core::num::<impl u8>::(is_\w+|to_ascii_\w+)|<(char|u32|u16|u64|usize|i32) as std::convert::From<(u8|char)>>::from"
                     r"|<u8 as std::cmp::PartialEq>::(eq|ne)|<char as std::cmp::PartialEq>::(eq|ne)|<&A as std::cmp::PartialEq<&B>>::(eq|ne))$")


class SummCtx:
    def __init__(self, I, it):
        self.it = it
        self.depth = len(I.frames)
        self.frame = I.frames[-1]
        self.local_ids = {id(b): i for i, b in enumerate(self.frame.locals)}
        self.iter_no = 0
        self.stamp = {}
        self.exposed = set()
        self.written = set()
        self.log = []
        self.tables = {}   # id(target) -> (target, {byte: bytes})
        self.reps_done = []
        self.cur = None    # current representative (int or Sym)
        self.cur_bytes = ()  # the payload bytes the current representative stands for

    def on_load(self, I, ref):
        i = self.local_ids.get(id(ref.box))
        if i is not None and self.stamp.get(i) != self.iter_no:
            self.exposed.add(i)

    def on_store(self, I, ref):
        i = self.local_ids.get(id(ref.box))
        if i is not None:
            self.stamp[i] = self.iter_no
            self.written.add(i)
            return
        for fr in I.frames[self.depth:]:
            for b in fr.locals:
                if b is ref.box:
                    return
        raise I.unanalysable("store to state outside the loop body while summarising a loop over a symbolic string")

    def check_callee(self, I, f):
        res = f.get("res") or {}
        for p in (res.get("path"), f.get("path")):
            if p and SUMM_OK.match(p):
                return
        raise I.unanalysable("call of %s inside a loop over a symbolic string (no summary for its effects)" % (f.get("path"),))

    def is_target(self, v):
        return any(v is t for t, _ in self.log) or any(v is t for t, _ in self.tables.values())

    def append(self, I, target, parts):
        self.log.append((target, list(parts)))

    def begin(self, I, rep, rep_bytes):
        self.iter_no += 1
        self.cur = rep
        self.cur_bytes = tuple(rep_bytes)
        self.log = []

    def end_iter(self, I):
        per = {}
        for target, parts in self.log:
            out = per.setdefault(id(target), (target, []))[1]
            for q in parts:
                if q[0] == "lit":
                    out.append(q[1])
                elif q[0] == "u8" and isinstance(q[1], int):
                    out.append(bytes([q[1] & 0xFF]))
                elif q[0] == "self":
                    out.append(None)
                else:
                    raise I.unanalysable("a loop over a symbolic string appends non-constant data (%r)" % (q[0],))
        for tid, (target, out) in per.items():
            tbl = self.tables.setdefault(tid, (target, {}))[1]
            if None in out:
                if out != [None]:
                    raise I.unanalysable("a loop over a symbolic string rewrites non-ASCII characters")
                for b in self.cur_bytes:
                    tbl[b] = bytes([b])
            else:
                if len(self.cur_bytes) != 1:
                    raise I.unanalysable("a loop over a symbolic string rewrites non-ASCII characters")
                tbl[self.cur_bytes[0]] = b"".join(out)
        self.reps_done.append(self.cur_bytes)
        self.log = []

    def finish(self, I, pay):
        carried = self.exposed & self.written
        if carried:
            names = [self.frame.body["locals"][i].get("name", "_%d" % i) for i in sorted(carried)]
            raise I.unanalysable("loop over a symbolic string carries state between iterations (%s)" % ", ".join(names))
        allb = [b for bs in self.reps_done for b in bs]
        for tid, (target, tbl) in self.tables.items():
            for b in allb:
                tbl.setdefault(b, b"")
            q = Payload(pay.kind if target.is_str else "bytes", pay.charset, pay.len, pay.origin, pay.escapes + (("tbl", dict(tbl)),), meta=pay.meta)
            q.id = pay.id
            target.parts.append(("pay", q))


def bytes_append(I, target, parts):
    """append parts to a byte string (deferred while a loop over a symbolic string is being summarised)"""
    s = getattr(I, "summ", None)
    if s is not None:
        s.append(I, target, parts)
    else:
        target.parts.extend(parts)


class PayIt(It):
    """iterator over the bytes (mode 'b') or chars (mode 'c') of a byte string that has variable-length parts"""

    def __init__(self, b, mode, by_ref):
        self.parts = list(b.parts)
        self.mode = mode
        self.by_ref = by_ref
        self.pos = 0
        self.queue = []
        self.reps = None

    def _mk(self, v):
        return some(Ref(Box_(v, "item"), ()) if self.by_ref else v)

    def _reps_of(self, I, pay):
        eff = set()
        for c in pay.charset:
            eff |= set(apply_escapes(bytes([c]) if c < 256 else chr(c).encode(), pay.escapes))
        if self.mode == "b":
            return [(c, (c,)) for c in sorted(eff)]
        reps = [(c, (c,)) for c in sorted(eff) if c < 128]
        hi = sorted(c for c in eff if c >= 128)
        if hi:
            reps.append((Sym("char_item", (), "char", 0x80, 0x10FFFF, attrs={"charset": frozenset(hi), "name": "non_ascii_char"}), tuple(hi)))
        return reps

    def next(self, I):
        s = getattr(I, "summ", None)
        if s is not None:
            if s.it is not self:
                raise I.unanalysable("nested iteration inside a summarised loop over a symbolic string")
            if not getattr(I, "_mir_next", False):
                raise I.unanalysable("symbolic string consumed element-wise by an iterator adaptor")
            s.end_iter(I)
            if self.reps:
                rep, rb = self.reps.pop(0)
                s.begin(I, rep, rb)
                return self._mk(rep)
            s.finish(I, self.parts[self.pos][1])
            I.summ = None
            self.pos += 1
        while True:
            if self.queue:
                return self._mk(self.queue.pop(0))
            if self.pos >= len(self.parts):
                return none()
            p = self.parts[self.pos]
            if p[0] == "pay":
                if not getattr(I, "_mir_next", False):
                    raise I.unanalysable("symbolic string consumed element-wise by an iterator adaptor")
                if p[1].kind == "str" and self.mode == "b" and False:
                    pass
                self.reps = self._reps_of(I, p[1])
                if not self.reps:
                    self.pos += 1
                    continue
                I.summ = s = SummCtx(I, self)
                rep, rb = self.reps.pop(0)
                s.begin(I, rep, rb)
                return self._mk(rep)
            if p[0] in ("lit", "u8", "int"):
                elems = as_elems(I, Bytes([p]))
                if self.mode == "c":
                    if not all(isinstance(x, int) and x < 128 for x in elems):
                        raise I.unanalysable("chars() over non-ASCII / symbolic literal part")
                self.queue = list(elems)
                self.pos += 1
                continue
            raise I.unanalysable("element-wise iteration over part %r" % (p[0],))


def has_var_part(b):
    return isinstance(b, Bytes) and any(p[0] not in ("lit", "u8", "int") for p in b.parts)


class RangeIt(It):
    def __init__(self, lo, hi):
        self.lo, self.hi = lo, hi


# ========================================================================================
class Models:
    """Per-analysis model registry and shared caches."""

    def __init__(self, prog):
        self.prog = prog
        self.statics = {}
        self.promoted_cache = {}
        self.overrides = {}  # local body key -> model (used for summaries/contracts)
        self.extra = {}  # path -> model, takes precedence over MODELS
        self.aggregate_hooks = []

    def local_override(self, key):
        return self.overrides.get(key)

    def lookup(self, f):
        res = f.get("res") or {}
        for p in (res.get("path"), f.get("path")):
            if p in self.extra:
                return self.extra[p]
            if p in MODELS:
                return MODELS[p]
        kind = res.get("kind")
        if kind == "virtual" and "virtual" in self.extra:
            return self.extra["virtual"]
        for p in (res.get("path"), f.get("path")):
            if p:
                for rx, fn in REGEX_MODELS:
                    if rx.search(p):
                        return fn
        return None

    def length_of(self, I, v):
        return length_of(I, v)

    def on_aggregate(self, I, a):
        return a

    def on_drop(self, I, v, ty):
        if isinstance(v, Guard):
            v.release(I)


# ========================================================================================
# RefCell / Rc
class CellBox(Box_):
    __slots__ = ("cell",)


class RcCell:
    """Rc<RefCell<T>> allocation with borrow typestate."""
    _n = 0

    def __init__(self, value, origin="new"):
        RcCell._n += 1
        self.id = RcCell._n
        self.box = CellBox(value, "cell%d" % self.id)
        self.box.cell = self
        self.shared = 0
        self.mut = False
        self.origin = origin  # 'new' | 'orig' (lazy pre-state cell) | 'memo'

    def __repr__(self):
        return "Rc#%d(%r)" % (self.id, self.box.v)

    def may_alias(self, other):
        if self is other:
            return True
        return self.origin != "new" and other.origin != "new"


class Guard:
    def __init__(self, cell, mut):
        self.cell = cell
        self.mut = mut
        self.live = True

    def release(self, I):
        if not self.live:
            return
        self.live = False
        if self.mut:
            self.cell.mut = False
        else:
            self.cell.shared -= 1
        if self in I.guards:
            I.guards.remove(self)

    def deref_ref(self, I):
        return Ref(self.cell.box, ())


def rc_of(I, v):
    """extract the RcCell from a StackObjectRef / Rc / reference to them"""
    v = deref(I, v)
    if isinstance(v, Agg) and len(v.fields) == 1 and v.adt.endswith("StackObjectRef"):
        v = v.fields[0]
    v = deref(I, v)
    if isinstance(v, RcCell):
        return v
    if hasattr(v, "as_rc"):
        return v.as_rc(I)
    raise I.unanalysable("expected Rc cell, got %r" % (v,))


@model("std::rc::Rc::<T>::new")
def _rc_new(I, f, a):
    return RcCell(a[0])


@model("std::cell::RefCell::<T>::new")
def _refcell_new(I, f, a):
    return a[0]  # RefCell is transparent: RcCell carries the borrow state


@model("<std::rc::Rc<T, A> as std::ops::Deref>::deref")
def _rc_deref(I, f, a):
    return Ref(Box_(rc_of(I, a[0]), "rc"), ())


@model("<std::rc::Rc<T, A> as std::clone::Clone>::clone")
def _rc_clone(I, f, a):
    return rc_of(I, a[0])


@model("std::rc::Rc::<T, A>::ptr_eq")
def _rc_ptr_eq(I, f, a):
    x, y = rc_of(I, a[0]), rc_of(I, a[1])
    if x is y:
        return True
    if x.may_alias(y):
        return Sym("ptr_eq", (), "bool")
    return False


@model("std::rc::Rc::<T, A>::as_ptr")
def _rc_as_ptr(I, f, a):
    I.run.event("ptr_to_int_source", I.where())
    return Opaque("rc_ptr", cell=rc_of(I, a[0]))


def _borrow(I, a, mut):
    cell = deref(I, a[0])
    if not isinstance(cell, RcCell):
        raise I.unanalysable("RefCell::borrow on %r" % (cell,))
    for g in I.guards:
        if g.live and g.cell.may_alias(cell) and (mut or g.mut):
            I.run.panics.append(("refcell_conflict", "borrow_mut" if mut else "borrow", I.where()))
            if g.cell is cell:
                raise PathEnd("panic", "RefCell already borrowed")
    g = Guard(cell, mut)
    if mut:
        cell.mut = True
    else:
        cell.shared += 1
    I.guards.append(g)
    return g


@model("std::cell::RefCell::<T>::borrow")
def _refcell_borrow(I, f, a):
    return _borrow(I, a, False)


@model("std::cell::RefCell::<T>::borrow_mut")
def _refcell_borrow_mut(I, f, a):
    return _borrow(I, a, True)


@model("<std::cell::Ref<'_, T> as std::ops::Deref>::deref", "<std::cell::RefMut<'_, T> as std::ops::Deref>::deref",
       "<std::cell::RefMut<'_, T> as std::ops::DerefMut>::deref_mut")
def _guard_deref(I, f, a):
    g = deref(I, a[0])
    if not isinstance(g, Guard):
        raise I.unanalysable("Ref::deref on %r" % (g,))
    return Ref(g.cell.box, ())


# ========================================================================================
# Vec / slices
@model("std::vec::Vec::<T>::new", "<std::vec::Vec<T> as std::default::Default>::default")
def _vec_new(I, f, a):
    args = (f.get("res") or {}).get("args") or f.get("args") or []
    ety = args[0] if args else None
    if ety == "u8":
        return Bytes([])
    return VecObj([], ety)


@model("std::vec::Vec::<T>::with_capacity")
def _vec_with_cap(I, f, a):
    return _vec_new(I, f, a)


@model("<std::vec::Vec<T, A> as std::ops::Deref>::deref", "<std::vec::Vec<T, A> as std::ops::DerefMut>::deref_mut",
       "<std::string::String as std::ops::Deref>::deref", "std::string::String::as_bytes",
       "core::str::<impl str>::as_bytes", "std::string::String::as_str", "std::vec::Vec::<T, A>::as_slice",
       "<std::borrow::Cow<'_, B> as std::ops::Deref>::deref")
def _vec_deref(I, f, a):
    v = a[0]
    if isinstance(v, Ref):
        return v
    return Ref(Box_(v, "tmp"), ())


@model("std::vec::Vec::<T, A>::len", "core::slice::<impl [T]>::len", "std::string::String::len",
       "core::str::<impl str>::len")
def _len(I, f, a):
    return length_of(I, deref(I, a[0]))


@model("std::vec::Vec::<T, A>::is_empty", "core::slice::<impl [T]>::is_empty", "std::string::String::is_empty",
       "core::str::<impl str>::is_empty")
def _is_empty(I, f, a):
    v = deref(I, a[0])
    if hasattr(v, "is_empty"):
        return v.is_empty(I)
    n = length_of(I, v)
    return I.binop("Eq", n, 0, "usize")


@model("std::vec::Vec::<T, A>::push")
def _vec_push(I, f, a):
    v = deref(I, a[0])
    if getattr(I, "summ", None) is not None and not isinstance(v, Bytes):
        raise I.unanalysable("push on a non-byte vector inside a summarised loop")
    if hasattr(v, "push"):
        v.push(I, a[1])
    elif isinstance(v, VecObj):
        v.elems.append(a[1])
    elif isinstance(v, Bytes):
        bytes_append(I, v, [("lit", bytes([a[1] & 255]))] if isinstance(a[1], int) and not isinstance(a[1], bool) else [("u8", a[1])])
    else:
        raise I.unanalysable("Vec::push on %r" % type(v).__name__)
    return unit()


@model("std::vec::Vec::<T, A>::pop")
def _vec_pop(I, f, a):
    v = deref(I, a[0])
    if hasattr(v, "pop"):
        return v.pop(I)
    if isinstance(v, VecObj):
        return some(v.elems.pop()) if v.elems else none()
    if isinstance(v, Bytes):
        lo, hi = v.fixed_len()
        if lo != hi:
            raise I.unanalysable("Vec::pop on a byte string of symbolic length")
        if lo == 0:
            return none()
        b = byte_at(I, v, lo - 1)
        v.parts = list(bytes_slice(I, v, 0, lo - 1).parts)
        return some(b)
    raise I.unanalysable("Vec::pop on %r" % type(v).__name__)


@model("core::slice::<impl [T]>::last")
def _slice_last(I, f, a):
    v = deref(I, a[0])
    if hasattr(v, "last"):
        return v.last(I)
    if isinstance(v, Bytes) and not all(p[0] == "lit" for p in v.parts):
        n = bytes_len(I, v)
        if I.truth(I.binop("Eq", n, 0, "usize")):
            return none()
        return some(Ref(ByteSlot(v, I.binop("Sub", n, 1, "usize"), I), ()))
    el = as_elems(I, v)
    return some(Ref(ListSlot(el, len(el) - 1), ())) if el else none()


@model("core::slice::<impl [T]>::get", "core::slice::<impl [T]>::get_mut")
def _slice_get(I, f, a):
    v = deref(I, a[0])
    idx = a[1]
    if isinstance(idx, Agg) and str(idx.adt).startswith("std::ops::Range"):
        r = slice_range(I, v, idx, checked=True)
        return none() if r is None else some(Ref(Box_(r, "slice"), ()))
    if hasattr(v, "get"):
        return v.get(I, idx)
    if isinstance(v, Bytes) and not (v.fixed_len()[0] == v.fixed_len()[1] and all(p[0] == "lit" for p in v.parts) and not is_sym(idx)):
        if I.truth(I.binop("Ge", idx, bytes_len(I, v), "usize")):
            return none()
        return some(Ref(ByteSlot(v, idx, I), ()))
    el = as_elems(I, v)
    if is_sym(idx):
        # symbolic index into a concrete list: None when the index may be out of range, otherwise some element
        lo, hi = bounds(idx)
        if (lo < 0 or hi >= len(el)) and I.truth(Sym("Ge", (idx, len(el)), "bool")):
            return none()
        if not el:
            return none()
        return some(Ref(Box_(pick_elem(I, el, idx), "elem"), ()))
    return some(Ref(ListSlot(el, idx), ())) if 0 <= idx < len(el) else none()


@model("std::vec::Vec::<T, A>::clear")
def _vec_clear(I, f, a):
    v = deref(I, a[0])
    if hasattr(v, "clear"):
        v.clear(I)
    elif isinstance(v, VecObj):
        v.elems[:] = []
    elif isinstance(v, Bytes):
        v.parts[:] = []
    else:
        raise I.unanalysable("Vec::clear on %r" % type(v).__name__)
    return unit()


@model("std::vec::Vec::<T, A>::truncate")
def _vec_truncate(I, f, a):
    v = deref(I, a[0])
    if hasattr(v, "truncate"):
        v.truncate(I, a[1])
        return unit()
    if isinstance(v, VecObj) and not is_sym(a[1]):
        del v.elems[a[1]:]
        return unit()
    if isinstance(v, Bytes):
        # keeps the string when new_len is not shorter, otherwise the prefix of that length
        if not I.truth(I.binop("Ge", a[1], bytes_len(I, v), "usize")):
            v.parts = list(bytes_slice(I, v, 0, a[1]).parts)
        return unit()
    raise I.unanalysable("Vec::truncate on %r" % type(v).__name__)


@model("std::string::String::reserve", "std::vec::Vec::<T, A>::reserve", "std::string::String::reserve_exact", "std::vec::Vec::<T, A>::reserve_exact",
       "std::string::String::shrink_to_fit", "std::vec::Vec::<T, A>::shrink_to_fit")
def _reserve(I, f, a):
    return unit()          # capacity is not observable


@model("std::string::String::truncate")
def _string_truncate(I, f, a):
    """String::truncate(new_len): no-op when new_len >= len; otherwise new_len must lie on a char boundary (else it panics)"""
    v = deref(I, a[0])
    if not isinstance(v, Bytes):
        raise I.unanalysable("String::truncate on %r" % type(v).__name__)
    n = a[1]
    if I.truth(I.binop("Ge", n, bytes_len(I, v), "usize")):
        return unit()
    import models2
    multi = any(c >= 128 for c in models2.charset_of(I, v))
    if multi and not (not is_sym(n) and n == 0):
        if I.run.choose(2, "truncate offset on a char boundary") == 1:
            I.run.panics.append(("truncate_not_char_boundary", I.where()))
            raise PathEnd("panic", "String::truncate: new_len is a byte offset inside a multi-byte character")
    v.parts = list(bytes_slice(I, v, 0, n).parts)
    return unit()


@model("std::string::String::extend_from_within", "std::vec::Vec::<T, A>::extend_from_within")
def _extend_from_within(I, f, a):
    """v.extend_from_within(range): appends a copy of v[range]; modelled for the whole string (..len, .., 0..len)"""
    v = deref(I, a[0])
    if not isinstance(v, Bytes):
        raise I.unanalysable("extend_from_within on %r" % type(v).__name__)
    r = a[1]
    name = str(getattr(r, "adt", "")).split("<")[0].split("::")[-1]
    n = bytes_len(I, v)
    lo, hi = 0, n
    if name == "RangeTo":
        hi = r.fields[0]
    elif name == "Range":
        lo, hi = r.fields
    elif name == "RangeFrom":
        lo = r.fields[0]
    elif name != "RangeFull":
        raise I.unanalysable("extend_from_within(%s)" % name)
    whole = (not is_sym(lo) and lo == 0) and (hi is n or (is_sym(hi) and is_sym(n) and hi.key() == n.key()) or (not is_sym(hi) and not is_sym(n) and hi == n))
    if not whole:
        raise I.unanalysable("extend_from_within over a proper sub-range")
    v.parts = list(v.parts) + list(v.parts)
    return unit()


@model("std::vec::Vec::<T, A>::remove")
def _vec_remove(I, f, a):
    v = deref(I, a[0])
    if isinstance(v, VecObj) and not is_sym(a[1]):
        if a[1] >= len(v.elems):
            I.run.panics.append(("remove_oob", I.where()))
            raise PathEnd("panic", "Vec::remove out of bounds")
        return v.elems.pop(a[1])
    raise I.unanalysable("Vec::remove on %r" % type(v).__name__)


@model("core::slice::<impl [T]>::reverse")
def _slice_reverse(I, f, a):
    v = deref(I, a[0])
    if isinstance(v, VecObj):
        v.elems.reverse()
        return unit()
    raise I.unanalysable("reverse on %r" % type(v).__name__)


@model("core::slice::<impl [T]>::sort_unstable", "core::slice::<impl [T]>::sort")
def _slice_sort(I, f, a):
    v = deref(I, a[0])
    if hasattr(v, "sort"):
        v.sort(I)
        return unit()
    if isinstance(v, VecObj):
        if all(isinstance(e, int) for e in v.elems):
            v.elems.sort()
            v.sorted = True
            I.run.event("sorted", id(v))
            return unit()
    raise I.unanalysable("sort on %r" % type(v).__name__)


@model("std::slice::<impl [T]>::to_vec", "<std::vec::Vec<T, A> as std::clone::Clone>::clone")
def _to_vec(I, f, a):
    v = deref(I, a[0])
    if hasattr(v, "to_vec"):
        return v.to_vec(I)
    if isinstance(v, Bytes):
        return v.copy()
    if isinstance(v, IntBytes):
        return v.to_bytes(I)
    if isinstance(v, Agg) and v.adt == "array":
        args = (f.get("res") or {}).get("args") or []
        if args and args[0] == "u8":
            return to_bytes(I, v)
        return VecObj(list(v.fields))
    if isinstance(v, (VecObj, SliceView)):
        return VecObj(list(as_elems(I, v)), getattr(v, "ety", None))
    raise I.unanalysable("to_vec/clone on %r" % type(v).__name__)


def to_bytes(I, v):
    """coerce a slice-like value to a Bytes value"""
    v = deref(I, v)
    if isinstance(v, Bytes):
        return v
    if isinstance(v, IntBytes):
        return Bytes([v.part()])
    if isinstance(v, Agg) and v.adt == "array":
        parts = []
        for e in v.fields:
            if isinstance(e, int) and parts and parts[-1][0] == "lit":
                parts[-1] = ("lit", parts[-1][1] + bytes([e & 255]))
            elif isinstance(e, int):
                parts.append(("lit", bytes([e & 255])))
            else:
                parts.append(("u8", e))
        return Bytes(parts)
    if isinstance(v, VecObj):
        return to_bytes(I, Agg("array", None, v.elems))
    if isinstance(v, SliceView):
        return to_bytes(I, Agg("array", None, as_elems(I, v)))
    if hasattr(v, "to_bytes"):
        return v.to_bytes(I)
    raise I.unanalysable("byte view of %r" % type(v).__name__)


@model("std::vec::Vec::<T, A>::extend_from_slice")
def _extend_from_slice(I, f, a):
    v = deref(I, a[0])
    src = deref(I, a[1])
    sm = getattr(I, "summ", None)
    if sm is not None and (not isinstance(v, Bytes) or any(src is t for t, _ in sm.tables.values()) or any(src is t for t, _ in sm.log)):
        raise I.unanalysable("extend_from_slice on %s inside a summarised loop" % type(v).__name__)
    if hasattr(v, "extend_from_slice"):
        v.extend_from_slice(I, src)
        return unit()
    if isinstance(v, Bytes):
        bytes_append(I, v, to_bytes(I, src).parts)
        return unit()
    if isinstance(v, VecObj):
        v.elems.extend(as_elems(I, src))
        return unit()
    raise I.unanalysable("extend_from_slice on %r" % type(v).__name__)


@model("<std::vec::Vec<T, A> as std::iter::Extend<T>>::extend")
def _vec_extend(I, f, a):
    v = deref(I, a[0])
    src = a[1]
    if isinstance(v, Bytes) or hasattr(v, "extend_from_slice"):
        if isinstance(src, It):
            items = list(_drive(I, src))
            srcb = Bytes([("lit", bytes([x])) if isinstance(x, int) else ("u8", x) for x in items])
        else:
            srcb = to_bytes(I, src)
        if isinstance(v, Bytes):
            v.parts.extend(srcb.parts)
        else:
            v.extend_from_slice(I, srcb)
        return unit()
    if isinstance(v, VecObj):
        it = into_iter(I, src)
        while True:
            r = it.next(I)
            if not is_some(r):
                break
            v.elems.append(r.fields[0])
        return unit()
    if hasattr(v, "extend"):
        v.extend(I, src)
        return unit()
    raise I.unanalysable("extend on %r" % type(v).__name__)


@model("<std::vec::Vec<T, A> as std::ops::Index<I>>::index", "<std::vec::Vec<T, A> as std::ops::IndexMut<I>>::index_mut",
       "core::slice::index::<impl std::ops::Index<I> for [T]>::index",
       "core::slice::index::<impl std::ops::IndexMut<I> for [T]>::index_mut",
       "std::array::<impl std::ops::Index<I> for [T; N]>::index",
       "std::array::<impl std::ops::IndexMut<I> for [T; N]>::index_mut")
def _index(I, f, a):
    base = a[0]
    v = deref(I, base)
    idx = a[1]
    if isinstance(idx, Agg) and idx.adt.startswith("std::ops::Range"):
        return Ref(Box_(slice_range(I, v, idx), "slice"), ())
    if hasattr(v, "index_ref"):
        return v.index_ref(I, idx)
    if isinstance(v, (VecObj,)) or (isinstance(v, Agg) and v.adt == "array"):
        el = as_elems(I, v)
        if is_sym(idx):
            lo, hi = bounds(idx)
            if lo < 0 or hi >= len(el):
                if I.truth(Sym("Ge", (idx, len(el)), "bool")):
                    I.run.panics.append(("index_oob", I.where()))
                    raise PathEnd("panic", "index out of bounds")
            # a reference to a symbolically chosen element
            return Ref(Box_(pick_elem(I, el, idx), "picked"), ())
        if 0 <= idx < len(el):
            return Ref(ListSlot(el, idx), ())
        I.run.panics.append(("index_oob", I.where()))
        raise PathEnd("panic", "index out of bounds")
    if isinstance(v, Bytes):
        return Ref(ByteSlot(v, idx, I), ())
    raise I.unanalysable("index on %r" % type(v).__name__)


class ByteSlot(Box_):
    """one byte of a (possibly symbolic) byte string; a store replaces that byte"""
    __slots__ = ("b", "idx", "I")

    def __init__(self, b, idx, I):
        self.b, self.idx, self.I = b, idx, I
        self.name = "byte"

    @property
    def v(self):
        return byte_at(self.I, self.b, self.idx)

    @v.setter
    def v(self, val):
        I = self.I
        byte_at(I, self.b, self.idx)  # bounds check
        import models2
        cs = set(models2.charset_of(I, self.b))
        if isinstance(val, int):
            cs.add(val)
        else:
            cs |= char_set(I, val)
        ln = bytes_len(I, self.b)
        n = getattr(self.b, "nset", 0) + 1
        self.b.nset = n
        kind = "str" if self.b.is_str else "bytes"
        src = getattr(self.b, "src_id", self.b.id)
        self.b.parts = [("pay", Payload(kind, cs, ln, origin="byteset_of:%d:%d" % (src, n)))]


def pick_elem_indexed(I, el, idx):
    """element selected by a symbolic index that is known to be in range: fork over the positions the index can take
    (its interval and the relational facts of the path), so that `table[i]` keeps what is known about `i`"""
    lo, hi = bounds(idx)
    cand = list(range(max(lo, 0), min(hi, len(el) - 1) + 1))
    if not cand:
        raise PathEnd("panic", "index out of bounds")
    for i in cand[:-1]:
        if I.truth(I.binop("Eq", idx, i, "usize")):
            return el[i]
    return el[cand[-1]]


def pick_elem(I, el, idx):
    if not el:
        raise PathEnd("panic", "index into empty")
    if all(isinstance(e, Agg) and not e.fields for e in el):
        # fieldless enum values: fork over the distinct ones
        distinct = []
        for e in el:
            if not any(d.adt == e.adt and d.variant == e.variant for d in distinct):
                distinct.append(e)
        c = I.run.choose(len(distinct), "pick element")
        return distinct[c]
    if all(isinstance(e, (int, float)) and not isinstance(e, bool) for e in el):
        if all(isinstance(e, int) for e in el):
            return ElemOf(el, idx)
        s = Sym("elem_of", (idx,), "f64")
        s.attrs["elems"] = list(el)
        return s
    if all(isinstance(e, Bytes) for e in el):
        return join_bytes(I, el)
    c = I.run.choose(len(el), "pick element")
    return el[c]


_join_cache = {}


def join_bytes(I, el):
    """one abstract string standing for any element of a table of literal strings"""
    ck = id(el)
    hit = _join_cache.get(ck)
    if hit is None or hit[0] is not el:
        cs = set()
        lo = hi = None
        for b in el:
            for p in b.parts:
                if p[0] != "lit":
                    raise I.unanalysable("table of non-literal strings")
                cs |= set(p[1])
            n = sum(len(p[1]) for p in b.parts)
            lo = n if lo is None else min(lo, n)
            hi = n if hi is None else max(hi, n)
        hit = (el, frozenset(cs), lo, hi, el[0].is_str)
        _join_cache[ck] = hit
    _, cs, lo, hi, is_str = hit
    return Bytes([("pay", Payload("str" if is_str else "bytes", cs, Sym("tbl_len", (), "usize", lo, hi), origin="table_elem"))], is_str)


def byte_at(I, b, idx):
    if is_sym(idx):
        lo, hi = b.fixed_len()
        ilo, ihi = bounds(idx)
        if hi is None or ihi >= lo:
            n = bytes_len(I, b)
            if I.truth(I.binop("Ge", idx, n, "usize")):
                I.run.panics.append(("index_oob", I.where()))
                raise PathEnd("panic", "index out of bounds")
        cs = set()
        for p in b.parts:
            if p[0] == "lit":
                cs |= set(p[1])
            elif p[0] == "pay":
                cs |= set(p[1].charset)
            else:
                cs = None
                break
        s = Sym("byte_of", (idx,), "u8")
        if cs:
            s.lo, s.hi = min(cs), max(cs)
            s.attrs["charset"] = frozenset(cs)
        return s
    pos = 0
    for p in b.parts:
        l, h = part_len(p)
        if l != h:
            break
        if idx < pos + l:
            if p[0] == "lit":
                return p[1][idx - pos]
            if p[0] == "u8":
                return p[1]
            if p[0] == "int":
                return Sym("byte", (p[1], p[4] + idx - pos), "u8", attrs={"of": p, "src": (p[1], p[2], p[3], p[5] - p[4] if p[4] == 0 else None)})
        pos += l
    lo, hi = b.fixed_len()
    if hi is not None and idx >= hi:
        I.run.panics.append(("index_oob", I.where()))
        raise PathEnd("panic", "index out of bounds")
    if idx < lo:
        return Sym("byte_at", (idx,), "u8")
    n = bytes_len(I, b)
    if I.truth(I.binop("Ge", idx, n, "usize")):
        I.run.panics.append(("index_oob", I.where()))
        raise PathEnd("panic", "index out of bounds")
    return Sym("byte_at", (idx,), "u8")


def slice_range(I, v, rng, checked=False):
    """v[range] for Range / RangeFrom / RangeTo; with checked=True the result of `get(range)`: None instead of a panic"""
    name = rng.adt.split("::")[-1]
    n = length_of(I, v)
    if name == "Range":
        lo, hi = rng.fields
    elif name == "RangeFrom":
        lo, hi = rng.fields[0], n
    elif name == "RangeTo":
        lo, hi = 0, rng.fields[0]
    elif name == "RangeFull":
        return v
    else:
        raise I.unanalysable("slice by %s" % name)
    # bounds checks (slice_index_order_fail / slice_end_index_len_fail)
    if I.truth(I.binop("Gt", lo, hi, "usize")):
        if checked:
            return None
        I.run.panics.append(("slice_order", I.where()))
        raise PathEnd("panic", "slice index starts after end")
    if I.truth(I.binop("Gt", hi, n, "usize")):
        if checked:
            return None
        I.run.panics.append(("slice_oob", I.where()))
        raise PathEnd("panic", "slice end out of range")
    if hasattr(v, "slice"):
        return v.slice(I, lo, hi)
    if isinstance(v, Bytes):
        return bytes_slice(I, v, lo, hi)
    if is_sym(lo) or is_sym(hi):
        raise I.unanalysable("symbolic sub-slice of %r" % type(v).__name__)
    return SliceView(v, lo, hi)


def bytes_slice(I, b, lo, hi):
    if is_sym(lo) or is_sym(hi):
        # prefix of symbolic length: the charset is preserved, the length is hi-lo
        cs = set()
        for p in b.parts:
            if p[0] == "lit":
                cs |= set(p[1])
            elif p[0] == "pay":
                cs |= set(p[1].charset)
            elif p[0] == "u8":
                l_, h_ = bounds(p[1])
                cs |= set(range(l_, h_ + 1))
            else:
                cs |= set(range(256))
        ln = I.binop("Sub", hi, lo, "usize")
        tag = "prefix" if (not is_sym(lo) and lo == 0) else "slice"
        return Bytes([("pay", Payload("bytes", cs, ln, origin=tag + "_of:%d" % b.src_id))], b.is_str)
    out = []
    pos = 0
    for p in b.parts:
        l, h = part_len(p)
        if pos >= hi:
            break
        if l != h:
            raise I.unanalysable("slice across a variable-length part")
        s, e = max(lo, pos), min(hi, pos + l)
        if s < e:
            if p[0] == "lit":
                out.append(("lit", p[1][s - pos:e - pos]))
            elif p[0] == "u8":
                out.append(p)
            elif p[0] == "int":
                out.append(("int", p[1], p[2], p[3], p[4] + s - pos, p[4] + e - pos))
            else:
                raise I.unanalysable("slice of part %r" % (p[0],))
        pos += l
    return Bytes(out, b.is_str)


@model("core::slice::<impl [T]>::copy_from_slice")
def _copy_from_slice(I, f, a):
    dst = deref(I, a[0])
    src = deref(I, a[1])
    if hasattr(dst, "copy_from_slice"):
        dst.copy_from_slice(I, src)
        return unit()
    raise I.unanalysable("copy_from_slice into %r" % type(dst).__name__)


@model("core::slice::<impl [T]>::iter", "core::slice::<impl [T]>::iter_mut")
def _slice_iter(I, f, a):
    v = deref(I, a[0])
    if hasattr(v, "iter"):
        return v.iter(I)
    if has_var_part(v):
        return PayIt(v, "b", True)
    return ListIt(as_elems(I, v), by_ref=True, owner=v)


def into_iter(I, v):
    if isinstance(v, It):
        return v
    if isinstance(v, Ref):
        t = deref(I, v)
        if hasattr(t, "iter"):
            return t.iter(I)
        if has_var_part(t):
            return PayIt(t, "b", True)
        if isinstance(t, Bytes):
            return ListIt(as_elems(I, t), by_ref=True)
        return ListIt(as_elems(I, t), by_ref=True, owner=t)
    if isinstance(v, VecObj):
        return ListIt(list(v.elems), by_ref=False)
    if isinstance(v, Agg) and v.adt.endswith("ops::Range"):
        I.run.event("range_iter", v.fields[0], v.fields[1])
        return RangeIter(v.fields[0], v.fields[1])
    if isinstance(v, Agg) and v.adt == "array":
        return ListIt(list(v.fields), by_ref=False)
    if has_var_part(v):
        return PayIt(v, "b", False)
    if isinstance(v, Bytes):
        return ListIt(as_elems(I, v), by_ref=False)
    if hasattr(v, "into_iter"):
        return v.into_iter(I)
    raise I.unanalysable("into_iter on %r" % (v,))


class RangeIter(It):
    def __init__(self, lo, hi):
        self.lo, self.hi = lo, hi

    def next(self, I):
        if I.truth(I.binop("Lt", self.lo, self.hi, "usize")):
            v = self.lo
            self.lo = I.binop("Add", self.lo, 1, "usize")
            return some(v)
        return none()

    def remaining(self, I):
        return I.binop("Sub", self.hi, self.lo, "usize")


@model("<I as std::iter::IntoIterator>::into_iter", "<&'a std::vec::Vec<T, A> as std::iter::IntoIterator>::into_iter",
       "<std::vec::Vec<T, A> as std::iter::IntoIterator>::into_iter",
       "<&'a [T] as std::iter::IntoIterator>::into_iter",
       "core::slice::iter::<impl std::iter::IntoIterator for &'a [T]>::into_iter",
       "<&'a [T; N] as std::iter::IntoIterator>::into_iter",
       "<&'a mut std::vec::Vec<T, A> as std::iter::IntoIterator>::into_iter")
def _into_iter(I, f, a):
    return into_iter(I, a[0])


def _it(I, v):
    v = deref(I, v)
    if isinstance(v, Agg) and v.adt.endswith("ops::Range"):
        # Range is its own iterator and is mutated in place through &mut
        return v
    if not isinstance(v, It):
        raise I.unanalysable("iterator method on %r" % (v,))
    return v


def _summ_chain_ok(it):
    while True:
        if isinstance(it, PayIt) or type(it).__name__ == "CharsIt":
            return True
        if isinstance(it, (CopiedIt, MapIt, FilterIt)):
            it = it.inner
            continue
        return False


@model("<std::slice::Iter<'a, T> as std::iter::Iterator>::next", "<std::iter::Rev<I> as std::iter::Iterator>::next",
       "<std::iter::Enumerate<I> as std::iter::Iterator>::next", "<std::iter::Take<I> as std::iter::Iterator>::next",
       "<std::vec::IntoIter<T, A> as std::iter::Iterator>::next", "<std::iter::Map<I, F> as std::iter::Iterator>::next",
       "<std::iter::Filter<I, P> as std::iter::Iterator>::next", "<std::iter::Copied<I> as std::iter::Iterator>::next",
       "<std::iter::Cloned<I> as std::iter::Iterator>::next", "<std::slice::IterMut<'a, T> as std::iter::Iterator>::next",
       "<std::str::SplitN<'a, P> as std::iter::Iterator>::next", "<std::str::Split<'a, P> as std::iter::Iterator>::next",
       "<std::str::Chars<'a> as std::iter::Iterator>::next",
       "<std::collections::hash_map::Keys<'a, K, V> as std::iter::Iterator>::next")
def _iter_next(I, f, a):
    it = _it(I, a[0])
    if isinstance(it, It) and _summ_chain_ok(it):
        # a MIR-level `next` on (a value-only adaptor chain over) a symbolic string: the loop is the caller's
        prev = getattr(I, "_mir_next", False)
        I._mir_next = True
        try:
            return it.next(I)
        finally:
            I._mir_next = prev
    return it.next(I)

@model_re(r"^<std::(iter|slice|vec|str|collections|option|result)::[^ ]+( as|<.*> as) std::iter::Iterator>::next$")
def _generic_iter_next(I, f, a):
    """`next` of any std adaptor the interpreter represents by one of its own iterator objects"""
    return _iter_next(I, f, a)



@model("std::iter::range::<impl std::iter::Iterator for std::ops::Range<A>>::next")
def _range_next(I, f, a):
    r = deref(I, a[0])
    if isinstance(r, RangeIter):
        return r.next(I)
    lo, hi = r.fields
    if I.truth(I.binop("Lt", lo, hi, "usize")):
        r.fields[0] = I.binop("Add", lo, 1, "usize")
        return some(lo)
    return none()


@model("std::iter::Iterator::rev")
def _rev(I, f, a):
    return RevIt(into_iter(I, a[0]))


@model("std::iter::Iterator::enumerate")
def _enumerate(I, f, a):
    return EnumerateIt(into_iter(I, a[0]))


@model("std::iter::Iterator::map")
def _map(I, f, a):
    return MapIt(into_iter(I, a[0]), a[1])


@model("std::iter::Iterator::filter")
def _filter(I, f, a):
    return FilterIt(into_iter(I, a[0]), a[1])


@model("std::iter::Iterator::copied", "std::iter::Iterator::cloned")
def _copied(I, f, a):
    return CopiedIt(into_iter(I, a[0]))


@model("std::iter::Iterator::take")
def _take(I, f, a):
    it = into_iter(I, a[0])
    if hasattr(it, "take"):
        return it.take(I, a[1])
    return TakeIt(it, a[1])


@model("<std::slice::Iter<'a, T> as std::iter::Iterator>::any", "std::iter::Iterator::any")
def _any(I, f, a):
    it = _it(I, a[0])
    if hasattr(it, "any"):
        return it.any(I, a[1])
    while True:
        r = it.next(I)
        if not is_some(r):
            return False
        if I.truth(I.call_closure(a[1], [r.fields[0]])):
            return True


@model("std::iter::Iterator::collect")
def _collect(I, f, a):
    it = into_iter(I, a[0])
    args = (f.get("res") or {}).get("args") or f.get("args") or []
    target = args[-1] if args else ""
    if hasattr(it, "collect"):
        r = it.collect(I, target)
        if r is not NotImplemented:
            return r
    # summarised payload loops: (0..n).map(closure).collect::<String|Vec<u8>>() with symbolic n
    if isinstance(it, MapIt) and isinstance(it.inner, RangeIter) and (is_sym(it.inner.hi) or is_sym(it.inner.lo)):
        return collect_payload(I, it, target)
    out = []
    while True:
        r = it.next(I)
        if not is_some(r):
            break
        out.append(r.fields[0])
        if len(out) > 100000:
            raise I.unanalysable("collect of an unbounded iterator")
    if target == "std::string::String":
        parts = []
        for c in out:
            if isinstance(c, int):
                parts.append(("lit", chr(c).encode()))
            else:
                parts.append(("pay", Payload("str", char_set(I, c), 1, origin="char")))
        return Bytes(parts, is_str=True)
    if target == "std::vec::Vec<u8>":
        return to_bytes(I, Agg("array", None, out))
    return VecObj(out)


def char_set(I, c):
    if isinstance(c, int):
        return {c}
    if is_sym(c):
        if "charset" in c.attrs:
            return set(c.attrs["charset"])
        if c.op == "cast" and is_sym(c.args[0]):
            return char_set(I, c.args[0])
        if c.op == "elem_of" and "elems" in c.attrs:
            return set(c.attrs["elems"])
        lo, hi = bounds(c)
        if hi - lo <= 0x110000:
            return set(range(lo, hi + 1))
    raise I.unanalysable("charset of %r" % (c,))


def collect_payload(I, it, target):
    """one abstract iteration of a payload-building map closure -> Payload(len, charset)"""
    n = I.binop("Sub", it.inner.hi, it.inner.lo, "usize") if not (not is_sym(it.inner.lo) and it.inner.lo == 0) else it.inner.hi
    before = len(I.run.events)
    elem = I.call_closure(it.f, [Sym("loop_index", (), "usize")])
    for ev in I.run.events[before:]:
        if ev[0] not in ("draw",):
            raise I.unanalysable("payload loop closure has side effect %r" % (ev[0],))
    cs = char_set(I, elem)
    kind = "str" if target == "std::string::String" else "bytes"
    I.run.event("payload_loop", kind, len(cs))
    return Bytes([("pay", Payload(kind, cs, n, origin="collect"))], is_str=(kind == "str"))


# ========================================================================================
# Option / Result
@model("std::option::Option::<T>::is_some_and")
def _is_some_and(I, f, a):
    o = a[0]
    if is_some(o):
        return I.truth(I.call_closure(a[1], [o.fields[0]]))
    if is_none(o):
        return False
    raise I.unanalysable("is_some_and on %r" % (o,))


@model("std::option::Option::<T>::map_or")
def _map_or(I, f, a):
    o = a[0]
    if is_some(o):
        return I.call_closure(a[2], [o.fields[0]])
    return a[1]


@model("std::option::Option::<T>::is_some")
def _opt_is_some(I, f, a):
    return is_some(deref(I, a[0]))


@model("std::option::Option::<T>::is_none")
def _opt_is_none(I, f, a):
    return is_none(deref(I, a[0]))


@model("std::option::Option::<T>::unwrap", "std::option::Option::<T>::expect")
def _opt_unwrap(I, f, a):
    o = a[0]
    if is_some(o):
        return o.fields[0]
    I.run.panics.append(("unwrap_none", I.where()))
    raise PathEnd("panic", "unwrap on None")


@model("std::option::Option::<T>::unwrap_or")
def _opt_unwrap_or(I, f, a):
    o = a[0]
    if is_some(o):
        return o.fields[0]
    if is_none(o):
        return a[1]
    if hasattr(o, "unwrap_or"):
        return o.unwrap_or(I, a[1])
    raise I.unanalysable("unwrap_or on %r" % (o,))


@model("std::option::Option::<T>::ok_or_else")
def _ok_or_else(I, f, a):
    o = a[0]
    if is_some(o):
        return ok(o.fields[0])
    return err(I.call_closure(a[1], []))


@model("std::result::Result::<T, E>::unwrap_or")
def _res_unwrap_or(I, f, a):
    r = a[0]
    if isinstance(r, Agg) and r.adt == RESULT:
        return r.fields[0] if r.variant == 0 else a[1]
    raise I.unanalysable("Result::unwrap_or on %r" % (r,))


@model("std::result::Result::<T, E>::unwrap", "std::result::Result::<T, E>::expect")
def _res_unwrap(I, f, a):
    r = a[0]
    if isinstance(r, Agg) and r.adt == RESULT and r.variant == 0:
        return r.fields[0]
    I.run.panics.append(("unwrap_err", I.where()))
    raise PathEnd("panic", "unwrap on Err")


@model("std::result::Result::<T, E>::map_err")
def _map_err(I, f, a):
    r = a[0]
    if r.variant == 0:
        return r
    return err(I.call_closure(a[1], [r.fields[0]]))


@model("std::result::Result::<T, E>::is_ok")
def _is_ok(I, f, a):
    return deref(I, a[0]).variant == 0


@model("std::result::Result::<T, E>::is_err")
def _is_err(I, f, a):
    return deref(I, a[0]).variant == 1


CONTROL_FLOW = "std::ops::ControlFlow"


@model("<std::result::Result<T, E> as std::ops::Try>::branch")
def _try_branch(I, f, a):
    r = a[0]
    if not (isinstance(r, Agg) and r.adt == RESULT):
        raise I.unanalysable("Try::branch on %r" % (r,))
    if r.variant == 0:
        return Agg(CONTROL_FLOW, 0, [r.fields[0]], 0, "Continue")
    return Agg(CONTROL_FLOW, 1, [err(r.fields[0])], 1, "Break")


@model("<std::result::Result<T, F> as std::ops::FromResidual<std::result::Result<std::convert::Infallible, E>>>::from_residual")
def _from_residual(I, f, a):
    r = a[0]
    I.run.event("err_propagated", I.where())
    return err(r.fields[0])


@model("<std::option::Option<T> as std::ops::Try>::branch")
def _opt_branch(I, f, a):
    o = a[0]
    if is_some(o):
        return Agg(CONTROL_FLOW, 0, [o.fields[0]], 0, "Continue")
    return Agg(CONTROL_FLOW, 1, [none()], 1, "Break")


# ========================================================================================
# integers / floats
def _int_ty(f):
    m = re.match(r"core::num::<impl (\w+)>::", f["path"])
    if m:
        return m.group(1)
    m = re.match(r"core::f64::<impl (\w+)>::", f["path"])
    return m.group(1) if m else None


def _reg_int_methods():
    for ty in ("u8", "u16", "u32", "u64", "usize", "i8", "i16", "i32", "i64", "isize", "u128", "i128"):
        base = "core::num::<impl %s>::" % ty
        MODELS[base + "saturating_add"] = _mk_sat("Add")
        MODELS[base + "saturating_sub"] = _mk_sat("Sub")
        MODELS[base + "wrapping_add"] = _mk_wrapping("Add")
        MODELS[base + "wrapping_sub"] = _mk_wrapping("Sub")
        MODELS[base + "checked_sub"] = _mk_checked("Sub")
        MODELS[base + "checked_add"] = _mk_checked("Add")
        MODELS[base + "to_le_bytes"] = _mk_to_bytes("le")
        MODELS[base + "to_be_bytes"] = _mk_to_bytes("be")
        MODELS[base + "from_le_bytes"] = _mk_from_bytes("le")
        MODELS[base + "from_be_bytes"] = _mk_from_bytes("be")
        MODELS[base + "min"] = _ord_min
        MODELS[base + "max"] = _ord_max
        MODELS[base + "wrapping_shl"] = _mk_wrapping_shift("Shl")
        MODELS[base + "unsigned_abs"] = _int_abs
        MODELS[base + "abs"] = _int_abs
        MODELS[base + "wrapping_abs"] = _int_abs
        MODELS[base + "wrapping_shr"] = _mk_wrapping_shift("Shr")
        MODELS[base + "checked_shl"] = _mk_checked_shift("Shl")
        MODELS[base + "checked_shr"] = _mk_checked_shift("Shr")
    MODELS["core::f64::<impl f64>::to_be_bytes"] = _mk_to_bytes("be")
    MODELS["core::f64::<impl f64>::to_le_bytes"] = _mk_to_bytes("le")
    MODELS["core::f64::<impl f64>::from_be_bytes"] = _mk_from_bytes("be")
    MODELS["core::f64::<impl f64>::from_le_bytes"] = _mk_from_bytes("le")


def _int_abs(I, f, a):
    """abs / unsigned_abs / wrapping_abs"""
    ty = _int_ty(f)
    name = f["path"].split("::")[-1]
    x = a[0]
    tlo, thi = ty_range(ty)
    uty = "u" + ty[1:] if ty.startswith("i") else ty
    if not is_sym(x):
        if name == "unsigned_abs":
            return abs(x)
        if x == tlo and tlo < 0:
            if name == "abs":
                I.run.panics.append(("overflow", I.where()))
                raise PathEnd("panic", "abs overflow")
            return x
        return abs(x)
    lo, hi = bounds(x)
    if lo >= 0:
        return x if name != "unsigned_abs" else I.cast_int(x, ty, uty)
    m = max(abs(lo), abs(hi))
    if name == "abs" and lo == tlo and tlo < 0:
        if I.truth(Sym("Eq", (x, tlo), "bool")):
            I.run.panics.append(("overflow", I.where()))
            raise PathEnd("panic", "abs overflow")
    return Sym("abs", (x,), uty if name == "unsigned_abs" else ty, 0 if hi >= 0 or lo <= 0 else min(abs(lo), abs(hi)), m)


def _mk_wrapping_shift(op):
    def m(I, f, a):
        """x.wrapping_shl(n) = x << (n mod bits), bits shifted out are dropped"""
        ty = _int_ty(f)
        bits = INT_TYPES[ty][0]
        x, n = a
        lo, hi = bounds(n) if is_sym(n) else (n, n)
        if lo < 0 or hi >= bits:
            n = (n % bits) if not is_sym(n) else Sym("and", (n, bits - 1), "u32", 0, bits - 1)
        if not is_sym(x) and not is_sym(n):
            tlo, thi = ty_range(ty)
            r = (x << n) if op == "Shl" else (x >> n)
            r &= (1 << bits) - 1
            return r - (1 << bits) if (tlo < 0 and r > thi) else r
        return Sym("shl" if op == "Shl" else "shr", (x, n), ty)
    return m


def _mk_checked_shift(op):
    def m(I, f, a):
        """x.checked_shl(n): None when n >= bits, else the wrapping shift"""
        ty = _int_ty(f)
        bits = INT_TYPES[ty][0]
        x, n = a
        lo, hi = bounds(n) if is_sym(n) else (n, n)
        if hi < bits and lo >= 0:
            return some(_mk_wrapping_shift(op)(I, f, [x, n]))
        if lo >= bits:
            return none()
        if I.truth(I.binop("Lt", n, bits, "u32")):
            return some(_mk_wrapping_shift(op)(I, f, [x, n]))
        return none()
    return m


def _mk_sat(op):
    def m(I, f, a):
        ty = _int_ty(f)
        x, y = a
        tlo, thi = ty_range(ty)
        if not is_sym(x) and not is_sym(y):
            v = x + y if op == "Add" else x - y
            return max(tlo, min(thi, v))
        alo, ahi = bounds(x)
        blo, bhi = bounds(y)
        if op == "Add":
            lo, hi = alo + blo, ahi + bhi
        else:
            lo, hi = alo - bhi, ahi - blo
        if type(x).__name__ == "Lin" or type(y).__name__ == "Lin":
            # length arithmetic: when the operation provably does not saturate it is the plain linear term
            if (op == "Add" and hi <= thi and lo >= tlo) or (op == "Sub" and (lo >= tlo or I.decide_cmp("Ge", x, y) is True)):
                return I.binop(op, x, y, ty)
        s = Sym("sat_" + op.lower(), (x, y), ty, max(tlo, min(thi, lo)), max(tlo, min(thi, hi)))
        return s
    return m


def _mk_wrapping(op):
    def m(I, f, a):
        ty = _int_ty(f)
        x, y = a
        if not is_sym(x) and not is_sym(y):
            return wrap(x + y if op == "Add" else x - y, ty)
        return Sym("wrapping_" + op.lower(), (x, y), ty)
    return m


def _mk_checked(op):
    def m(I, f, a):
        ty = _int_ty(f)
        x, y = a
        r = I.binop(op + "WithOverflow", x, y, ty)
        val, of = r.fields
        if I.truth(of):
            return none()
        return some(val)
    return m


class IntBytes:
    """[u8; N] produced by to_le_bytes / to_be_bytes of a (possibly symbolic) number"""

    def __init__(self, v, ty, endian, n):
        self.v, self.ty, self.endian, self.n = v, ty, endian, n

    def part(self):
        return ("int", self.v, self.ty, self.endian, 0, self.n)

    def length(self, I):
        return self.n

    def to_bytes(self, I):
        return Bytes([self.part()])

    def index_get(self, I, idx):
        return byte_at(I, Bytes([self.part()]), idx)

    def slice(self, I, lo, hi):
        return bytes_slice(I, Bytes([self.part()]), lo, hi)

    def __repr__(self):
        return "IntBytes(%r:%s,%s)" % (self.v, self.ty, self.endian)


def _mk_to_bytes(endian):
    def m(I, f, a):
        ty = _int_ty(f)
        n = 8 if ty in ("f64",) else INT_TYPES[ty][0] // 8
        v = a[0]
        if hasattr(v, "resolve"):
            v = v.resolve(I)
        return IntBytes(v, ty, endian, n)
    return m


def _mk_from_bytes(endian):
    def m(I, f, a):
        ty = _int_ty(f)
        arr = a[0]
        if isinstance(arr, Agg) and all(isinstance(x, int) for x in arr.fields):
            if ty == "f64":
                import struct
                return struct.unpack("<d" if endian == "le" else ">d", bytes(arr.fields))[0]
            v = int.from_bytes(bytes(arr.fields), "little" if endian == "le" else "big", signed=INT_TYPES[ty][1])
            return v
        # reassemble bytes of one integer written by to_*_bytes
        if isinstance(arr, Agg) and arr.fields and all(is_sym(x) and x.op == "byte" and "src" in x.attrs for x in arr.fields):
            s0 = arr.fields[0].attrs["src"]
            same = all(x.attrs["src"][0] is s0[0] and x.attrs["src"][1:] == s0[1:] and x.args[1] == i
                       for i, x in enumerate(arr.fields))
            if same and s0[2] == endian and s0[3] == len(arr.fields):
                if s0[1] == ty:
                    return s0[0]
                if s0[1] in INT_TYPES and ty in INT_TYPES and INT_TYPES[s0[1]][0] == INT_TYPES[ty][0]:
                    return I.cast_int(s0[0], s0[1], ty)
        return Sym("from_bytes", (), ty)
    return m


@model("std::cmp::impls::<impl std::cmp::PartialOrd for f64>::partial_cmp", "std::cmp::impls::<impl std::cmp::PartialOrd for f32>::partial_cmp")
def _f64_partial_cmp(I, f, a):
    """None for NaN operands, else Some(Less | Equal | Greater) decided by ordinary comparisons on the path"""
    x, y = deref(I, a[0]), deref(I, a[1])
    ORD = "std::cmp::Ordering"
    def o(name, d):
        return some(Agg(ORD, {"Less": 0, "Equal": 1, "Greater": 2}[name], [], d, name))
    if I.truth(I.binop("Lt", x, y, "f64")):
        return o("Less", -1)
    if I.truth(I.binop("Gt", x, y, "f64")):
        return o("Greater", 1)
    if I.truth(I.binop("Eq", x, y, "f64")):
        return o("Equal", 0)
    return none()


@model("std::cmp::Ord::min")
def _ord_min(I, f, a):
    x, y = a
    if any(not is_sym(v) and not isinstance(v, (int, float)) for v in a):
        return x if I.truth(I.binop("Lt", a[0], a[1], "usize")) else y
    if not is_sym(x) and not is_sym(y):
        return min(x, y)
    alo, ahi = bounds(x)
    blo, bhi = bounds(y)
    ty = x.ty if is_sym(x) else y.ty
    return Sym("min", (x, y), ty, min(alo, blo), min(ahi, bhi))


@model("std::cmp::Ord::max")
def _ord_max(I, f, a):
    x, y = a
    if any(not is_sym(v) and not isinstance(v, (int, float)) for v in (x, y)):
        return y if I.truth(I.binop("Lt", x, y, "usize")) else x       # lazily decided lengths: compare on the path
    if not is_sym(x) and not is_sym(y):
        return max(x, y)
    alo, ahi = bounds(x)
    blo, bhi = bounds(y)
    ty = x.ty if is_sym(x) else y.ty
    return Sym("max", (x, y), ty, max(alo, blo), max(ahi, bhi))


@model("core::f64::<impl f64>::clamp")
def _f64_clamp(I, f, a):
    x, lo, hi = a
    if not is_sym(x):
        if x != x:
            return x
        return max(lo, min(hi, x))
    s = Sym("clamp", (x, lo, hi), "f64")
    return s


@model("core::f64::<impl f64>::to_bits")
def _f64_to_bits(I, f, a):
    return Sym("to_bits", (a[0],), "u64")


for _t in ("bool", "f64", "i32", "i64", "u16", "u32", "u64", "u8", "usize", "char", "i8", "i16", "isize"):
    MODELS["std::clone::impls::<impl std::clone::Clone for %s>::clone" % _t] = lambda I, f, a: deref(I, a[0])

_reg_int_methods()


@model("std::cmp::PartialOrd::ge", "std::cmp::PartialOrd::gt", "std::cmp::PartialOrd::le", "std::cmp::PartialOrd::lt",
       "std::cmp::PartialEq::ne", "std::cmp::PartialEq::eq")
def _partial_cmp_ops(I, f, a):
    x, y = deref(I, a[0]), deref(I, a[1])
    name = f["path"].split("::")[-1]
    op = {"ge": "Ge", "gt": "Gt", "le": "Le", "lt": "Lt", "ne": "Ne", "eq": "Eq"}[name]
    if hasattr(x, "variants") and hasattr(x, "resolve"):
        x = x.resolve(I)[1]
        if isinstance(y, Agg) and not y.fields:
            y = y.discr
    if hasattr(y, "variants") and hasattr(y, "resolve"):
        y = y.resolve(I)[1]
        if isinstance(x, Agg) and not x.fields:
            x = x.discr
    if isinstance(x, Agg) and isinstance(y, Agg):
        if not x.fields and not y.fields:
            return I.binop(op, x.discr, y.discr, "isize")
        if op in ("Eq", "Ne"):
            r = agg_eq(I, x, y)
            if op == "Eq":
                return r
            return (not r) if isinstance(r, bool) else Sym("not", (r,), "bool")
        raise I.unanalysable("comparison of aggregates %r %r" % (x, y))
    if hasattr(x, "cmp_with") or hasattr(y, "cmp_with"):
        d = I.decide_cmp(op, x, y)
        if d is not None:
            return d
    return I.binop(op, x, y, "isize")


@model("std::cmp::impls::<impl std::cmp::PartialEq<&B> for &A>::eq", "std::cmp::impls::<impl std::cmp::PartialEq<&B> for &A>::ne")
def _ref_eq(I, f, a):
    return _partial_cmp_ops(I, {"path": "x::" + f["path"].split("::")[-1]}, [deref1(I, a[0]), deref1(I, a[1])])


# ========================================================================================
# Box / misc
class BoxVal:
    """Box<T>: `(*b)` and the elaborated `((b.0: Unique).0: NonNull) as *const T` both reach the content"""

    def __init__(self, content):
        self.cbox = Box_(content, "boxed")

    def __repr__(self):
        return "Box(%r)" % (self.cbox.v,)

    def deref_ref(self, I):
        return Ref(self.cbox, ())

    def get_field(self, I, i):
        return _BoxUnique(self)


class _BoxUnique:
    def __init__(self, b):
        self.b = b

    def get_field(self, I, i):
        return Ref(self.b.cbox, ())


@model("std::boxed::Box::<T>::new")
def _box_new(I, f, a):
    return BoxVal(a[0])


@model("<std::boxed::Box<T, A> as std::convert::AsRef<T>>::as_ref", "<std::boxed::Box<T, A> as std::convert::AsMut<T>>::as_mut",
       "<std::boxed::Box<T, A> as std::borrow::Borrow<T>>::borrow", "<std::boxed::Box<T, A> as std::borrow::BorrowMut<T>>::borrow_mut")
def _box_as_ref(I, f, a):
    v = deref(I, a[0])
    if hasattr(v, "deref_ref"):
        return v.deref_ref(I)
    return a[0]        # abstract objects stand for the box and its content alike


@model("std::ops::FnMut::call_mut", "std::ops::Fn::call", "std::ops::FnOnce::call_once")
def _fn_call(I, f, a):
    """call through a generic `impl Fn*` parameter: the callee is the closure value itself"""
    args = a[1]
    if isinstance(args, Ref):
        args = I.load(args)
    if not (isinstance(args, Agg) and args.adt == "tuple"):
        raise I.unanalysable("Fn*::call with argument pack %r" % (type(args).__name__,))
    return I.call_closure(a[0], list(args.fields))


@model("std::char::convert::<impl std::convert::From<u8> for char>::from", "std::char::convert::<impl std::convert::From<char> for u32>::from",
       "std::char::convert::<impl std::convert::From<char> for u64>::from")
def _char_from_u8(I, f, a):
    return a[0]          # characters are their code points


@model("<T as std::convert::TryInto<U>>::try_into", "core::array::<impl std::convert::TryFrom<&'a [T]> for [T; N]>::try_from",
       "core::array::<impl std::convert::TryFrom<&'a [T]> for &'a [T; N]>::try_from")
def _slice_try_into_array(I, f, a):
    """&[T] -> [T; N]: Ok exactly when the slice has N elements"""
    targs = (f.get("args") or []) + ((f.get("res") or {}).get("args") or [])
    tgt = next((t for t in reversed(targs) if re.search(r"\[.*;\s*\w+\]$", str(t).strip())), None)
    if tgt is None:
        raise I.unanalysable("try_into with target %r" % (targs,))
    nm = re.search(r";\s*(\w+)\]$", tgt.strip()).group(1)
    n = int(nm) if nm.isdigit() else I.const_param(I.frames[-1], nm, "usize")
    v = deref(I, a[0])
    ln = length_of(I, v)
    if I.truth(I.binop("Ne", ln, n, "usize")):
        return err(Opaque("TryFromSliceError"))
    if isinstance(v, Bytes):
        arr = Agg("array", None, [byte_at(I, v, i) for i in range(n)])
    else:
        arr = Agg("array", None, list(as_elems(I, v))[:n])
    return ok(Ref(Box_(arr, "arr"), ()) if str(tgt).strip().startswith("&") else arr)


@model_re(r"^<&(?:'\w+ )?(\w+) as std::ops::(Add|Sub|Mul|Div|Rem|BitAnd|BitOr|BitXor|Shl|Shr)<&?(?:'\w+ )?\w+>>::\w+$")
def _ref_arith(I, f, a):
    """operators on references to primitive integers (`&u8 & u8`, `&a + &b`): the operation on the values"""
    import re as _re
    p = (f.get("res") or {}).get("path") or f.get("path")
    m = _re.match(r"^<&(?:'\w+ )?(\w+) as std::ops::(\w+)<", p)
    ty, op = m.group(1), m.group(2)
    if ty not in INT_TYPES:
        raise I.unanalysable("operator %s on %s" % (op, ty))
    x, y = deref(I, a[0]), deref(I, a[1])
    return I.binop(op, x, y, ty)


@model("core::bool::<impl bool>::then_some")
def _bool_then_some(I, f, a):
    return some(a[1]) if I.truth(a[0]) else none()


@model("core::bool::<impl bool>::then")
def _bool_then(I, f, a):
    return some(I.call_closure(a[1], [])) if I.truth(a[0]) else none()


@model("std::hint::must_use", "std::convert::identity", "<T as std::convert::From<T>>::from",
       "<T as std::convert::Into<U>>::into")
def _identity(I, f, a):
    return a[0]


@model("std::mem::drop")
def _mem_drop(I, f, a):
    I.models.on_drop(I, a[0], "")
    return unit()


@model("std::rt::panic_fmt", "core::panicking::panic_fmt", "core::panicking::panic", "std::rt::begin_panic",
       "core::panicking::unreachable_display", "core::panicking::panic_explicit")
def _panic(I, f, a):
    I.run.panics.append(("explicit_panic", I.where()))
    raise PathEnd("panic", "explicit panic")


@model_re(r"^(color_eyre::eyre|eyre)::(WrapErr|ContextCompat|Context)::(wrap_err_with|wrap_err|context|with_context)$")
def _eyre_wrap(I, f, a):
    """Result<T, E>.wrap_err(..): Ok passes through, Err becomes a report (the message closure is not evaluated: it only formats)"""
    r = a[0]
    if isinstance(r, Agg) and r.adt == RESULT:
        return r if r.variant == 0 else err(Opaque("eyre::Report"))
    if isinstance(r, Agg) and r.adt == OPTION:
        return ok(r.fields[0]) if is_some(r) else err(Opaque("eyre::Report"))
    raise I.unanalysable("wrap_err on %r" % (r,))


@model("color_eyre::eyre::private::format_err", "color_eyre::eyre::private::new_adhoc")
def _eyre(I, f, a):
    I.run.event("err_constructed", I.where())
    return Opaque("eyre::Report")


@model("<bool as std::default::Default>::default")
def _bool_default(I, f, a):
    return False


for _t in ("usize", "u8", "u16", "u32", "u64", "i32", "i64", "isize"):
    MODELS["<%s as std::default::Default>::default" % _t] = lambda I, f, a: 0
MODELS["<f64 as std::default::Default>::default"] = lambda I, f, a: 0.0


@model("<std::option::Option<T> as std::default::Default>::default")
def _opt_default(I, f, a):
    return none()


@model("<std::string::String as std::default::Default>::default")
def _string_default(I, f, a):
    return Bytes([], is_str=True)


# ---------------------------------------------------------------------------------------- more iterator adaptors
def _drive(I, it):
    while True:
        r = it.next(I)
        if not is_some(r):
            return
        yield r.fields[0]


@model("std::iter::Iterator::position", "<std::slice::Iter<'a, T> as std::iter::Iterator>::position")
def _position(I, f, a):
    it = _it(I, a[0])
    n = 0
    for x in _drive(I, it):
        if I.truth(I.call_closure(a[1], [x])):
            return some(n)
        n += 1
    return none()


@model("std::iter::Iterator::rposition", "<std::slice::Iter<'a, T> as std::iter::Iterator>::rposition")
def _rposition(I, f, a):
    it = _it(I, a[0])
    if hasattr(it, "back_index"):
        while True:
            idx = it.back_index(I)
            r = it.next_back(I)
            if not is_some(r):
                return none()
            if I.truth(I.call_closure(a[1], [r.fields[0]])):
                return some(idx)
    items = list(_drive(I, it))
    for i in range(len(items) - 1, -1, -1):
        if I.truth(I.call_closure(a[1], [items[i]])):
            return some(i)
    return none()


@model("std::iter::Iterator::find", "<std::slice::Iter<'a, T> as std::iter::Iterator>::find")
def _find(I, f, a):
    it = _it(I, a[0])
    for x in _drive(I, it):
        if I.truth(I.call_closure(a[1], [Ref(Box_(x, "item"), ())])):
            return some(x)
    return none()


@model("std::iter::Iterator::find_map", "<std::slice::Iter<'a, T> as std::iter::Iterator>::find_map")
def _find_map(I, f, a):
    it = _it(I, a[0])
    for x in _drive(I, it):
        r = I.call_closure(a[1], [x])
        if is_some(r):
            return r
        if not is_none(r):
            raise I.unanalysable("find_map closure returned %r" % (type(r).__name__,))
    return none()


@model("core::slice::<impl [T]>::contains")
def _slice_contains_generic(I, f, a):
    v = deref(I, a[0])
    needle = deref(I, a[1])
    if hasattr(v, "contains"):
        return v.contains(I, needle)
    for e in as_elems(I, v):
        if I.truth(agg_eq(I, e, needle)):
            return True
    return False


@model("std::iter::Iterator::all", "<std::slice::Iter<'a, T> as std::iter::Iterator>::all")
def _all(I, f, a):
    it = _it(I, a[0])
    for x in _drive(I, it):
        if not I.truth(I.call_closure(a[1], [x])):
            return False
    return True


@model("std::iter::Iterator::min", "std::iter::Iterator::max")
def _iter_minmax(I, f, a):
    it = into_iter(I, a[0])
    items = list(_drive(I, it))
    if not items:
        return none()
    if len(items) == 1:
        return some(items[0])
    vals = [I.load(x) if isinstance(x, Ref) else x for x in items]
    lo = min(bounds(v)[0] if is_sym(v) else v for v in vals)
    hi = max(bounds(v)[1] if is_sym(v) else v for v in vals)
    s_ = Sym("min" if f["path"].endswith("min") else "max", tuple(v for v in vals if is_sym(v)), "usize", lo, hi)
    return some(Ref(Box_(s_, "m"), ()) if isinstance(items[0], Ref) else s_)


@model("std::iter::Iterator::sum", "std::iter::Iterator::product")
def _iter_sum(I, f, a):
    it = into_iter(I, a[0])
    acc = 0 if f["path"].endswith("sum") else 1
    for x in _drive(I, it):
        v = I.load(x) if isinstance(x, Ref) else x
        acc = I.binop("Add" if f["path"].endswith("sum") else "Mul", acc, v, "usize")
    return acc


@model("std::iter::Iterator::count")
def _count(I, f, a):
    it = into_iter(I, a[0])
    return sum(1 for _ in _drive(I, it))


@model("std::iter::Iterator::last")
def _last(I, f, a):
    it = into_iter(I, a[0])
    last = None
    for x in _drive(I, it):
        last = x
    return some(last) if last is not None else none()


@model("std::iter::Iterator::nth")
def _nth(I, f, a):
    it = _it(I, a[0])
    n = a[1]
    if is_sym(n):
        # symbolic position in a finite sequence: None when it may be past the end, otherwise the element at that position
        items = list(_drive(I, it))
        lo, hi = bounds(n)
        if (lo < 0 or hi >= len(items)) and I.truth(Sym("Ge", (n, len(items)), "bool")):
            return none()
        if not items:
            return none()
        vals = [I.load(x) if isinstance(x, Ref) else x for x in items]
        if all(isinstance(v, int) and not isinstance(v, bool) for v in vals):
            e = ElemOf(vals, n)
            return some(Ref(Box_(e, "nth"), ()) if isinstance(items[0], Ref) else e)
        return some(pick_elem_indexed(I, items, n))
    for i, x in enumerate(_drive(I, it)):
        if i == n:
            return some(x)
    return none()


@model("std::iter::Iterator::skip")
def _skip(I, f, a):
    it = into_iter(I, a[0])
    n = a[1]
    if is_sym(n):
        raise I.unanalysable("skip(symbolic)")
    for _ in range(n):
        it.next(I)
    return it


@model_re(r"^(std::iter::Iterator::fold|<.* as std::iter::Iterator>::fold)$")
def _iter_fold(I, f, a):
    it = into_iter(I, a[0])
    acc = a[1]
    for x in _drive(I, it):
        acc = I.call_closure(a[2], [acc, x])
    return acc


@model("std::iter::Iterator::zip")
def _iter_zip(I, f, a):
    x, y = into_iter(I, a[0]), into_iter(I, a[1])

    class Zip(It):
        def next(self, I2):
            p = x.next(I2)
            if not is_some(p):
                return none()
            q = y.next(I2)
            if not is_some(q):
                return none()
            return some(Agg("tuple", None, [p.fields[0], q.fields[0]]))
    return Zip()


@model("std::iter::from_fn")
def _iter_from_fn(I, f, a):
    cl = a[0]

    class FromFn(It):
        done = False

        def next(self, I2):
            if self.done:
                return none()
            r = I2.call_closure(Ref(Box_(cl, "from_fn"), ()) if not isinstance(cl, Ref) else cl, [])
            if not is_some(r):
                self.done = True
            return r
    return FromFn()


@model("core::slice::<impl [T]>::split_first")
def _slice_split_first(I, f, a):
    v = deref(I, a[0])
    n = length_of(I, v)
    if I.truth(I.binop("Eq", n, 0, "usize")):
        return none()
    if isinstance(v, Bytes):
        head = Ref(ByteSlot(v, 0, I), ())
        rest = bytes_slice(I, v, 1, n)
    else:
        el = list(as_elems(I, v))
        head = Ref(ListSlot(el, 0), ())
        rest = SliceView(v, 1, len(el)) if not hasattr(v, "slice") else v.slice(I, 1, n)
    return some(Agg("tuple", None, [head, Ref(Box_(rest, "rest"), ())]))


@model("core::slice::<impl [T]>::split_first_chunk")
def _slice_split_first_chunk(I, f, a):
    """(&[T; N], &[T]) when the slice has at least N elements"""
    v = deref(I, a[0])
    targs = (f.get("args") or []) + ((f.get("res") or {}).get("args") or [])
    nm = next((t for t in reversed(targs) if re.fullmatch(r"\w+", str(t)) and (str(t).isdigit() or str(t)[0].isupper())), None)
    if nm is None:
        raise I.unanalysable("split_first_chunk without a chunk size")
    k = int(nm) if str(nm).isdigit() else I.const_param(I.frames[-1], nm, "usize")
    n = length_of(I, v)
    if I.truth(I.binop("Lt", n, k, "usize")):
        return none()
    if isinstance(v, Bytes):
        arr = Agg("array", None, [byte_at(I, v, i) for i in range(k)])
        rest = bytes_slice(I, v, k, n)
    else:
        el = list(as_elems(I, v))
        arr = Agg("array", None, el[:k])
        rest = SliceView(v, k, len(el))
    return some(Agg("tuple", None, [Ref(Box_(arr, "chunk"), ()), Ref(Box_(rest, "rest"), ())]))


@model("std::iter::Iterator::skip_while")
def _skip_while(I, f, a):
    it = into_iter(I, a[0])
    pred = a[1]

    class SW(It):
        skipping = True

        def next(self, I2):
            while True:
                r = it.next(I2)
                if not is_some(r):
                    return r
                if self.skipping and I2.truth(I2.call_closure(pred, [Ref(Box_(r.fields[0], "item"), ())])):
                    continue
                self.skipping = False
                return r
    return SW()


@model("std::iter::Iterator::take_while")
def _take_while(I, f, a):
    it = into_iter(I, a[0])
    pred = a[1]

    class TW(It):
        done = False

        def next(self, I2):
            if self.done:
                return none()
            r = it.next(I2)
            if is_some(r) and I2.truth(I2.call_closure(pred, [Ref(Box_(r.fields[0], "item"), ())])):
                return r
            self.done = True
            return none()
    return TW()


def agg_eq(I, x, y):
    """structural equality of plain aggregates (Option<usize>, tuples, fieldless enums)"""
    if isinstance(x, Agg) and isinstance(y, Agg):
        if x.adt != y.adt or len(x.fields) != len(y.fields) and x.variant == y.variant:
            if x.adt != y.adt:
                raise I.unanalysable("equality of %s and %s" % (x.adt, y.adt))
        if x.variant != y.variant:
            return False
        res = True
        for a, b in zip(x.fields, y.fields):
            r = agg_eq(I, deref(I, a), deref(I, b))
            if r is False:
                return False
            if r is not True:
                res = r if res is True else I.binop("BitAnd", res, r, "bool")
        return res
    if isinstance(x, Agg) or isinstance(y, Agg):
        raise I.unanalysable("equality of aggregate and scalar")
    return I.binop("Eq", x, y, "isize")


@model("<std::option::Option<T> as std::cmp::PartialEq>::eq", "<std::option::Option<T> as std::cmp::PartialEq>::ne")
def _option_eq(I, f, a):
    x, y = deref(I, a[0]), deref(I, a[1])
    for v in (x, y):
        if hasattr(v, "discriminant") and not isinstance(v, Agg):
            raise I.unanalysable("equality on a lazy option")
    r = agg_eq(I, x, y)
    if f["path"].endswith("::ne") or (f.get("res") or {}).get("path", "").endswith("::ne"):
        if isinstance(r, bool):
            return not r
        return I.eval_not(r) if hasattr(I, "eval_not") else Sym("not", (r,), "bool")
    return r


@model("<std::option::Option<T> as std::ops::FromResidual<std::option::Option<std::convert::Infallible>>>::from_residual")
def _opt_from_residual(I, f, a):
    return none()


@model("<std::result::Result<T, F> as std::ops::FromResidual<std::ops::Yeet<E>>>::from_residual")
def _res_from_yeet(I, f, a):
    return err(a[0])


# ---------------------------------------------------------------------------------------- Option / Result combinators
def _optv(I, v):
    v = deref1(I, v) if isinstance(v, Ref) else v
    if not isinstance(v, Agg) and hasattr(v, "discriminant") and hasattr(v, "get_field") and hasattr(v, "inner"):
        # a lazily decided Option (configuration value): decide it now
        return some(v.get_field(I, 0)) if v.discriminant(I) == 1 else none()
    if not (isinstance(v, Agg) and v.adt == OPTION):
        raise I.unanalysable("Option combinator on %r" % (v,))
    return v


@model("std::option::Option::<T>::and_then")
def _opt_and_then(I, f, a):
    o = _optv(I, a[0])
    return I.call_closure(a[1], [o.fields[0]]) if is_some(o) else none()


@model("std::option::Option::<T>::map")
def _opt_map(I, f, a):
    o = _optv(I, a[0])
    return some(I.call_closure(a[1], [o.fields[0]])) if is_some(o) else none()


@model("std::option::Option::<T>::filter")
def _opt_filter(I, f, a):
    o = _optv(I, a[0])
    if is_some(o) and I.truth(I.call_closure(a[1], [Ref(Box_(o.fields[0], "v"), ())])):
        return o
    return none()


@model("std::option::Option::<T>::or")
def _opt_or(I, f, a):
    o = _optv(I, a[0])
    return o if is_some(o) else a[1]


@model("std::option::Option::<T>::or_else")
def _opt_or_else(I, f, a):
    o = _optv(I, a[0])
    return o if is_some(o) else I.call_closure(a[1], [])


@model("std::option::Option::<T>::unwrap_or_else")
def _opt_unwrap_or_else(I, f, a):
    o = _optv(I, a[0])
    return o.fields[0] if is_some(o) else I.call_closure(a[1], [])


def default_of(I, ty):
    """Default::default() of the common value types"""
    ty = I.subst_ty(str(ty))
    if ty in INT_TYPES:
        return False if ty == "bool" else 0
    if ty == "f64":
        return 0.0
    if ty.startswith("std::vec::Vec<u8") or ty == "std::string::String":
        return Bytes([], ty.endswith("String"))
    if ty.startswith("std::vec::Vec<"):
        return VecObj([])
    if ty.startswith("std::option::Option<"):
        return none()
    raise I.unanalysable("unwrap_or_default::<%s>" % ty)


@model("std::option::Option::<T>::unwrap_or_default")
def _opt_unwrap_or_default(I, f, a):
    o = _optv(I, a[0])
    if is_some(o):
        return o.fields[0]
    ty = ((f.get("res") or {}).get("args") or f.get("args") or [""])[0]
    return default_of(I, ty)


@model("std::option::Option::<T>::map_or_else")
def _opt_map_or_else(I, f, a):
    o = _optv(I, a[0])
    return I.call_closure(a[2], [o.fields[0]]) if is_some(o) else I.call_closure(a[1], [])


@model("std::option::Option::<T>::is_none_or")
def _opt_is_none_or(I, f, a):
    o = _optv(I, a[0])
    return I.truth(I.call_closure(a[1], [o.fields[0]])) if is_some(o) else True


@model("std::option::Option::<T>::ok_or")
def _opt_ok_or(I, f, a):
    o = _optv(I, a[0])
    return ok(o.fields[0]) if is_some(o) else err(a[1])


@model("std::option::Option::<T>::as_ref", "std::option::Option::<T>::as_mut", "std::option::Option::<T>::as_deref")
def _opt_as_ref(I, f, a):
    r = a[0]
    o = deref(I, r)
    if hasattr(o, "discriminant") and not isinstance(o, Agg):
        d = o.discriminant(I)
        return some(Ref(Box_(o.get_field(I, 0), "inner"), ())) if d == 1 else none()
    o = _optv(I, o)
    if is_some(o):
        return some(Ref(ListSlot(o.fields, 0), ()))
    return none()


@model("std::option::Option::<&T>::copied", "std::option::Option::<&T>::cloned", "std::option::Option::<&mut T>::copied")
def _opt_copied(I, f, a):
    o = _optv(I, a[0])
    return some(I.copy_val(deref1(I, o.fields[0]))) if is_some(o) else none()


@model("std::option::Option::<T>::take")
def _opt_take(I, f, a):
    r = a[0]
    o = _optv(I, I.load(r))
    I.store(r, none())
    return o


@model("std::result::Result::<T, E>::map")
def _res_map(I, f, a):
    r = a[0]
    return ok(I.call_closure(a[1], [r.fields[0]])) if r.variant == 0 else r


@model("std::result::Result::<T, E>::and_then")
def _res_and_then(I, f, a):
    r = a[0]
    return I.call_closure(a[1], [r.fields[0]]) if r.variant == 0 else r


@model("std::result::Result::<T, E>::ok")
def _res_ok(I, f, a):
    r = a[0]
    return some(r.fields[0]) if r.variant == 0 else none()


@model("std::result::Result::<T, E>::err")
def _res_err(I, f, a):
    r = a[0]
    return some(r.fields[0]) if r.variant == 1 else none()


@model("std::result::Result::<T, E>::unwrap_or_else")
def _res_unwrap_or_else(I, f, a):
    r = a[0]
    return r.fields[0] if r.variant == 0 else I.call_closure(a[1], [r.fields[0]])


@model("std::result::Result::<T, E>::unwrap_or_default")
def _res_unwrap_or_default(I, f, a):
    r = a[0]
    if r.variant == 0:
        return r.fields[0]
    ty = ((f.get("res") or {}).get("args") or f.get("args") or [""])[0]
    return default_of(I, ty)


@model("std::result::Result::<T, E>::or_else")
def _res_or_else(I, f, a):
    r = a[0]
    return r if r.variant == 0 else I.call_closure(a[1], [r.fields[0]])


@model("std::result::Result::<T, E>::map_or")
def _res_map_or(I, f, a):
    r = a[0]
    return I.call_closure(a[2], [r.fields[0]]) if r.variant == 0 else a[1]


@model("core::slice::<impl [T]>::first")
def _slice_first(I, f, a):
    v = deref(I, a[0])
    if hasattr(v, "get"):
        return v.get(I, 0)
    if isinstance(v, Bytes) and not all(p[0] == "lit" for p in v.parts):
        if I.truth(I.binop("Eq", bytes_len(I, v), 0, "usize")):
            return none()
        return some(Ref(ByteSlot(v, 0, I), ()))
    el = as_elems(I, v)
    return some(Ref(ListSlot(el, 0), ())) if el else none()


@model("core::slice::<impl [T]>::select_nth_unstable")
def _select_nth_unstable(I, f, a):
    """(left, &mut nth, right): the element of rank `index` in ascending order; the partitions are opaque"""
    v = deref(I, a[0])
    idx = a[1]
    el = list(as_elems(I, v))
    n = len(el)
    if is_sym(idx):
        lo, hi = bounds(idx)
        if (lo < 0 or hi >= n) and I.truth(Sym("Ge", (idx, n), "bool")):
            I.run.panics.append(("select_nth_oob", I.where()))
            raise PathEnd("panic", "select_nth_unstable: index out of bounds")
    elif not 0 <= idx < n:
        I.run.panics.append(("select_nth_oob", I.where()))
        raise PathEnd("panic", "select_nth_unstable: index out of bounds")
    vals = [I.load(x) if isinstance(x, Ref) else x for x in el]
    if not all(isinstance(x, int) and not isinstance(x, bool) for x in vals):
        raise I.unanalysable("select_nth_unstable over non-integer elements")
    srt = sorted(vals)
    nth = ElemOf(srt, idx) if is_sym(idx) else srt[idx]
    return Agg("tuple", None, [Opaque("select_nth_left"), Ref(Box_(nth, "nth"), ()), Opaque("select_nth_right")])


@model("core::slice::<impl [T]>::split_at", "core::slice::<impl [T]>::split_at_mut")
def _slice_split_at(I, f, a):
    v = deref(I, a[0])
    mid = a[1]
    n = length_of(I, v)
    if I.truth(I.binop("Gt", mid, n, "usize")):
        I.run.panics.append(("split_at_oob", I.where()))
        raise PathEnd("panic", "split_at: mid > len")
    if hasattr(v, "slice"):
        l, r = v.slice(I, 0, mid), v.slice(I, mid, n)
    elif isinstance(v, Bytes):
        l, r = bytes_slice(I, v, 0, mid), bytes_slice(I, v, mid, n)
    elif not is_sym(mid) and not is_sym(n):
        l, r = SliceView(v, 0, mid), SliceView(v, mid, n)
    else:
        raise I.unanalysable("split_at(symbolic) of %r" % type(v).__name__)
    return Agg("tuple", None, [Ref(Box_(l, "split_l"), ()), Ref(Box_(r, "split_r"), ())])


@model("core::slice::<impl [T]>::split_last")
def _slice_split_last(I, f, a):
    raise I.unanalysable("split_last")


@model("core::num::<impl usize>::min", "core::cmp::min", "std::cmp::min")
def _cmp_min(I, f, a):
    return _ord_min(I, f, a)


@model("core::cmp::max", "std::cmp::max")
def _cmp_max(I, f, a):
    return _ord_max(I, f, a)


@model("std::cell::RefCell::<T>::try_borrow")
def _refcell_try_borrow(I, f, a):
    cell = deref(I, a[0])
    if not isinstance(cell, RcCell):
        raise I.unanalysable("RefCell::try_borrow on %r" % (cell,))
    for g in I.guards:
        if g.live and g.mut and g.cell.may_alias(cell):
            if g.cell is cell or I.run.choose(2, "try_borrow conflicts") == 1:
                return err(Opaque("BorrowError"))
    g = Guard(cell, False)
    cell.shared += 1
    I.guards.append(g)
    return ok(g)


@model("std::cell::RefCell::<T>::try_borrow_mut")
def _refcell_try_borrow_mut(I, f, a):
    cell = deref(I, a[0])
    if not isinstance(cell, RcCell):
        raise I.unanalysable("RefCell::try_borrow_mut on %r" % (cell,))
    for g in I.guards:
        if g.live and g.cell.may_alias(cell):
            if g.cell is cell or I.run.choose(2, "try_borrow_mut conflicts") == 1:
                return err(Opaque("BorrowMutError"))
    g = Guard(cell, True)
    cell.mut = True
    I.guards.append(g)
    return ok(g)


def _hash_noop(I, f, a):
    return unit()


for _t in ("bool", "i32", "i64", "isize", "u64", "u8", "usize", "u32", "u16", "i8", "i16", "char", "str"):
    MODELS["core::hash::impls::<impl std::hash::Hash for %s>::hash" % _t] = _hash_noop
MODELS["<std::string::String as std::hash::Hash>::hash"] = _hash_noop
MODELS["<std::vec::Vec<T, A> as std::hash::Hash>::hash"] = _hash_noop
MODELS["std::hash::Hasher::write_usize"] = _hash_noop
MODELS["std::hash::Hash::hash"] = _hash_noop


@model("std::str::<impl str>::repeat", "std::slice::<impl [T]>::repeat")
def _repeat(I, f, a):
    v = deref(I, a[0])
    n = a[1]
    import models2
    b = models2.as_str(I, v) if isinstance(v, Bytes) or hasattr(v, "to_bytes") else None
    if b is None:
        raise I.unanalysable("repeat on %r" % (v,))
    if isinstance(n, int) and n <= 64:
        return Bytes(list(b.parts) * n, b.is_str)
    nlo, nhi = bounds(n)
    lo, hi = b.fixed_len()
    if hi is None or nhi > (1 << 20):
        raise I.unanalysable("repeat with unbounded count")
    cs = models2.charset_of(I, b)
    kind = "str" if b.is_str else "bytes"
    return Bytes([("pay", Payload(kind, cs, Sym("repeat_len", (), "usize", lo * nlo, hi * nhi), origin="repeat_of:%d" % b.src_id))], b.is_str)


@model_re(r"convert::num::(?:ptr_try_from_impls::)?<impl std::convert::TryFrom<(\w+)> for (\w+)>::try_from$")
def _int_try_from(I, f, a):
    import re as _re
    p = (f.get("res") or {}).get("path") or f.get("path")
    m = _re.search(r"TryFrom<(\w+)> for (\w+)>", p)
    src, dst = m.group(1), m.group(2)
    v = a[0]
    if hasattr(v, "resolve"):
        v = v.resolve(I)
    tlo, thi = ty_range(dst)
    lo, hi = bounds(v)
    if lo >= tlo and hi <= thi:
        return ok(I.cast_int(v, src, dst))
    if hi < tlo or lo > thi:
        return err(Opaque("TryFromIntError"))
    fits = I.truth(Sym("Le", (v, thi), "bool")) and (tlo <= lo or I.truth(Sym("Ge", (v, tlo), "bool")))
    if fits:
        return ok(I.cast_int(v, src, dst))
    return err(Opaque("TryFromIntError"))


@model("std::convert::TryFrom::try_from")
def _trait_try_from(I, f, a):
    """unresolved `T::try_from(x)` (generic body): generic arguments are [Self, source]"""
    ga = [I.subst_ty(str(x)) for x in (f.get("args") or [])]
    if len(ga) >= 2 and ga[0] in INT_TYPES and ga[1] in INT_TYPES:
        return _int_try_from(I, {"path": "core::convert::num::<impl std::convert::TryFrom<%s> for %s>::try_from" % (ga[1], ga[0])}, a)
    raise I.unanalysable("unresolved TryFrom::try_from with generic arguments %r" % (ga,))


@model_re(r"^<(\w+) as std::convert::TryFrom<(\w+)>>::try_from$")
def _generic_int_try_from(I, f, a):
    """`T::try_from(x)` inside a generic body: decided with what the running call substituted for the type parameters"""
    import re as _re
    p = f.get("path") or ""
    m = _re.match(r"^<(\w+) as std::convert::TryFrom<(\w+)>>::try_from$", p)
    dst, src = I.subst_ty(m.group(1)), I.subst_ty(m.group(2))
    if dst not in INT_TYPES or src not in INT_TYPES:
        raise I.unanalysable("generic try_from with %s <- %s" % (dst, src))
    return _int_try_from(I, {"path": "core::convert::num::<impl std::convert::TryFrom<%s> for %s>::try_from" % (src, dst)}, a)


@model_re(r"convert::num::<impl std::convert::From<(\w+)> for (\w+)>::from$")
def _int_from(I, f, a):
    import re as _re
    p = (f.get("res") or {}).get("path") or f.get("path")
    m = _re.search(r"From<(\w+)> for (\w+)>", p)
    v = a[0]
    if hasattr(v, "resolve"):
        v = v.resolve(I)
    return I.cast_int(v, m.group(1), m.group(2))


@model("std::mem::replace")
def _mem_replace(I, f, a):
    old = I.load(a[0])
    I.store(a[0], a[1])
    return old


@model("std::mem::swap")
def _mem_swap(I, f, a):
    x, y = I.load(a[0]), I.load(a[1])
    I.store(a[0], y)
    I.store(a[1], x)
    return unit()


@model("std::mem::take")
def _mem_take(I, f, a):
    old = I.load(a[0])
    ty = ((f.get("res") or {}).get("args") or f.get("args") or [""])[0]
    key = "<%s as std::default::Default>::default" % ty
    if key in I.prog.bodies:
        new = I.call(key, [])
    else:
        m = I.models.lookup({"path": key, "res": {"path": key}})
        if m is None:
            base = ty.split("<")[0]
            for cand in ("<%s<T> as std::default::Default>::default" % base, "<%s<T, A> as std::default::Default>::default" % base,
                         "<%s<K, V, S> as std::default::Default>::default" % base):
                m = MODELS.get(cand)
                if m:
                    break
        if m is None:
            raise I.unanalysable("mem::take::<%s>" % ty)
        new = m(I, {"path": key, "args": [ty], "res": {"path": key, "args": [ty]}}, [])
    I.store(a[0], new)
    return old


def _ascii_pred(lo_hi_list):
    def m(I, f, a):
        v = deref(I, a[0])
        if hasattr(v, "resolve"):
            v = v.resolve(I)
        if isinstance(v, int):
            return any(lo <= v <= hi for lo, hi in lo_hi_list)
        res = False
        for lo, hi in lo_hi_list:
            if I.truth(I.binop("Ge", v, lo, "u32")) and I.truth(I.binop("Le", v, hi, "u32")):
                res = True
                break
        return res
    return m


for _pfx in ("core::num::<impl u8>::", "core::char::methods::<impl char>::"):
    MODELS[_pfx + "is_ascii"] = _ascii_pred([(0, 127)])
    MODELS[_pfx + "is_ascii_graphic"] = _ascii_pred([(33, 126)])
    MODELS[_pfx + "is_ascii_alphabetic"] = _ascii_pred([(65, 90), (97, 122)])
    MODELS[_pfx + "is_ascii_alphanumeric"] = _ascii_pred([(48, 57), (65, 90), (97, 122)])
    MODELS[_pfx + "is_ascii_digit"] = _ascii_pred([(48, 57)])
    MODELS[_pfx + "is_ascii_uppercase"] = _ascii_pred([(65, 90)])
    MODELS[_pfx + "is_ascii_lowercase"] = _ascii_pred([(97, 122)])
    MODELS[_pfx + "is_ascii_control"] = _ascii_pred([(0, 31), (127, 127)])
    MODELS[_pfx + "is_ascii_whitespace"] = _ascii_pred([(9, 10), (12, 13), (32, 32)])
    MODELS[_pfx + "is_ascii_punctuation"] = _ascii_pred([(33, 47), (58, 64), (91, 96), (123, 126)])
