"""C01: safe-mode pickles obey the reference stack discipline (DESIGN.md section 4, C01)."""
from values import Unanalysable
import refmachine as R
import gen_analysis as GA
import mutsum
import harness as H
import rules_pvm as PV
from framework import Result


def cleanup_checks(env, res, pid="C01"):
    """R01.d: every opcode of the collapse phase meets the reference precondition in the state in
    which it is emitted; every exit ends with exactly one non-MARK item."""
    spec = env.spec
    lvs = env.memo("cleanup_leaves", lambda: GA.cleanup_leaves(env))
    loc = PV.op_loc(env, "::cleanup_for_stop")
    nsteps = 0
    for lf in lvs:
        res.count("R01.d")
        if lf.end is not None:
            if lf.end[0] == "panic":
                continue
            res.add("R01.d", "cleanup_for_stop/analysis-%s" % lf.end[0], "collapse phase: analysis ended with %s" % (lf.end,), loc)
            continue
        for s in lf.steps:
            nsteps += 1
            ml = GA.MiniLeaf(s["op"], s["pre"], s["base_open"], s["post"], s["events"])
            if spec.spec(s["op"]) is None:
                res.add("R01.d", "cleanup_for_stop/%s/unknown-opcode" % s["op"], "collapse phase emits unknown opcode %s" % s["op"], loc)
                continue
            try:
                p1 = R.o1_check(spec, ml)
                p3 = R.o3_check(spec, ml) if not p1 else []
            except (KeyError, AssertionError, OverflowError) as e:
                p1, p3 = ["cannot evaluate: %r" % (e,)], []
            if p1:
                res.add("R01.d", "cleanup_for_stop/%s/precondition" % s["op"],
                        "collapse phase emits %s in a state that does not meet its reference precondition: %s" % (s["op"], "; ".join(p1)), loc,
                        {"step": s["op"], "problems": p1})
            if p3:
                res.add("R01.d", "cleanup_for_stop/%s/effect" % s["op"],
                        "collapse phase: simulated effect of %s differs from the reference: %s" % (s["op"], "; ".join(p3)), loc)
        # exit condition
        fin = lf.final
        if lf.final_open and not lf.bound_hit:
            res.add("R01.d", "cleanup_for_stop/exit/depth-unknown", "collapse phase may return without having established the final depth", loc)
        elif len(fin) != 1:
            if lf.bound_hit and len(fin) > 1 and not any(a[0].op == "Lt" and any(getattr(x, "op", "") == "havoc" for x in a[0].args if hasattr(x, "op")) for a in lf.atoms):
                # depth bound artefact: the window was cut, not a loop exit
                pass
            else:
                via = [a for a in lf.atoms if any(getattr(x, "op", "") == "havoc" for x in getattr(a[0], "args", ()))]
                how = ""
                if via:
                    nm = [x.attrs.get("name") for x in via[-1][0].args if hasattr(x, "attrs")]
                    how = " (loop exit through the loop-carried scalar `%s`, which is not related to the stack depth)" % (nm[0] if nm else "?")
                res.add("R01.d", "cleanup_for_stop/exit/depth-%s" % ("0" if not fin else "gt1"),
                        "collapse phase can return with %d items on the simulated stack%s; STOP needs exactly one" % (len(fin), how), loc,
                        {"steps": [s["op"] for s in lf.steps], "final_depth": len(fin)})
        elif "Mark" in fin[0]["kinds"]:
            res.add("R01.d", "cleanup_for_stop/exit/top-mark", "collapse phase can return with a MARK as the only item", loc)
    res.floor("R01.d", 20, "collapse-phase leaves")
    return len(lvs), nsteps


def generate_structure_checks(env, res):
    """R01.a loop discipline, R01.e STOP site (structure of generate_internal)"""
    prog, ctx = env.prog, env.ctx
    loc = PV.op_loc(env, "::generate_internal")
    n = 0
    t1 = env.memo("T1", lambda: __import__("tables").extract_T1(prog, ctx))
    stop_byte = t1.get("Stop")
    for ver in (0, 2, 4):
        lvs = env.memo(("gen_leaves", ver), lambda ver=ver: GA.generate_internal_leaves(env, ver))
        for g in lvs:
            n += 1
            res.count("R01.a")
            # (a leaf cut by the exploration bound still has a real prefix: its calls are checked like any other)
            calls = [e for e in g.events if e[0] == "call"]
            last_valid = None
            fresh = False
            for e in calls:
                if e[1] == "get_valid_opcodes":
                    last_valid = e[2]
                    fresh = True
                elif e[1] == "emit_and_process":
                    ch = e[2]
                    if not isinstance(ch, GA.Chosen) or ch.src is not last_valid:
                        res.add("R01.a", "generate_internal/emit-not-chosen",
                                "generation loop hands emit_and_process an opcode that is not weighted_choice(get_valid_opcodes()) of the same iteration", loc)
                    elif not fresh:
                        res.add("R01.a", "generate_internal/stale-valid-opcodes",
                                "generation loop chooses from a valid-opcode list computed before the previous opcode was emitted: the guards "
                                "(can_emit) were evaluated in a state that no longer exists", loc)
                    elif last_valid.empty is not False:
                        res.add("R01.a", "generate_internal/empty-not-cut",
                                "generation loop calls emit_and_process although the valid-opcode list may be empty", loc)
                    fresh = False
            if g.end is None and g.ret is not None and getattr(g.ret, "vname", None) == "Ok":
                # R01.e: after cleanup exactly one STOP is appended and nothing after it
                ws = g.writes
                ci = [i for i, w in enumerate(ws) if w[0] == "opaque_cleanup"]
                if len(ci) != 1:
                    res.add("R01.e", "generate_internal/cleanup-count", "cleanup_for_stop is called %d times on a successful path" % len(ci), loc)
                    continue
                after = [w for w in ws[ci[0] + 1:] if w[0] not in ("patch",)]
                outs = [w for w in after if w[0] == "out"]
                flat = b"".join(p[1] for w in outs for p in w[1] if p[0] == "lit")
                nonlit = [p for w in outs for p in w[1] if p[0] != "lit"]
                if flat != bytes([stop_byte]) or nonlit or any(w[0] != "out" for w in after):
                    res.add("R01.e", "generate_internal/stop-not-last",
                            "after the collapse phase the output must receive exactly the STOP byte; found %r" % (after,), loc)
    res.floor("R01.a", 6, "generate_internal leaves")
    # get_valid_opcodes == table row filtered by exactly can_emit; weighted_choice returns an element of its argument
    t2 = PV.table_T2(env)
    lv = PV.op_loc(env, "::get_valid_opcodes")
    for ver in (0, 5):
        for (r, pe) in GA.valid_opcodes_leaves(env, ver):
            res.count("R01.a-valid")
            if pe is not None:
                res.add("R01.a", "get_valid_opcodes/ends", "get_valid_opcodes does not return normally: %s" % (pe.info,), lv)
                continue
            asked, vec = r
            row = t2.get(ver, [])
            # safety direction only (C12 owns the other one, rules_c12 C12.e): whatever is offered must be an opcode of the
            # protocol's row whose guard was consulted and held.  Offering fewer opcodes cannot break the stack discipline.
            outside = [a for a, _ in asked if a not in row]
            if outside:
                res.add("R01.a", "get_valid_opcodes/not-table-row", "get_valid_opcodes (protocol %d) considers %r, which the protocol's table row does not contain" % (ver, outside[:4]), lv)
                break
            got = [v.vname for v in GA.M.as_elems(None, vec)] if hasattr(vec, "elems") else None
            want = [a for a, c in asked if c]
            if got is None or [g for g in got if g not in want]:
                res.add("R01.a", "get_valid_opcodes/filter", "get_valid_opcodes returns %r although can_emit was consulted and held only for %r" % (got, want), lv)
                break
    lw = PV.op_loc(env, "::weighted_choice")
    # the empty list is only a relevant argument if the generation loop can pass one
    may_pass_empty = False
    for ver in (0, 2, 4):
        for g in env.memo(("gen_leaves", ver), lambda ver=ver: GA.generate_internal_leaves(env, ver)):
            for e in g.events:
                if e[0] == "call" and e[1] == "weighted_choice" and e[3] is not False:
                    may_pass_empty = True
    ret_opt = str(prog.bodies[prog.find("::weighted_choice")].get("ret_ty", "")).startswith("std::option::Option<")
    for names in (([],) if (may_pass_empty or ret_opt) else ()) + (["Mark"], ["Int", "Pop", "Dup"]):
        seen = set()
        for (r, pe, panics) in GA.weighted_choice_leaves(env, names):
            res.count("R01.a-choice")
            if pe is not None or panics:
                res.add("R01.a", "weighted_choice/panic", "weighted_choice(%r) can panic: %s %s" % (names, pe and pe.info, panics[:1]), lw)
                continue
            v = r[1]
            if ret_opt and not names:
                if repr(v) != repr(GA.Opaque("none-for-empty")):
                    res.add("R01.a", "weighted_choice/empty-not-none", "weighted_choice([]) returns %r; the generation loop relies on None for an empty list" % (v,), lw)
                continue
            seen.add(getattr(v, "vname", None))
            if names and getattr(v, "vname", None) not in names:
                res.add("R01.a", "weighted_choice/not-member", "weighted_choice(%r) can return %r, which is not an element of its argument" % (names, v), lw)
        if names and seen != set(names):
            res.add("R01.a", "weighted_choice/coverage", "weighted_choice(%r) can only return %r" % (names, sorted(x for x in seen if x)), lw)
    return n


def rule_C01(env):
    res = Result("C01", "model_checking")
    tr = PV.get_trans(env)
    spec = env.spec
    n = nobl = 0
    samples = []
    for op, lf in PV.iter_emit_leaves(env, res, tr):
        n += 1
        res.count("R01.b")
        nobl += 1
        try:
            probs = R.o1_check(spec, lf)
        except (KeyError, AssertionError, OverflowError) as e:
            probs = ["cannot evaluate: %r" % (e,)]
        if probs:
            res.add("R01.b", "can_emit/%s/%s" % (op, probs[0].split("(")[0].strip().replace(" ", "_")[:60]),
                    "guard of %s is true in a state where the reference precondition is not established: %s" % (op, "; ".join(probs)),
                    PV.op_loc(env, "::can_emit"), PV.sample(lf, probs))
            continue
        if lf.end is not None:
            continue
        nobl += 1
        try:
            p3 = R.o3_check(spec, lf)
        except (KeyError, AssertionError, OverflowError) as e:
            p3 = ["cannot evaluate: %r" % (e,)]
        p3 = [p for p in p3 if "depth differs" in p or "mark" in p.lower() or "pops" in p]
        if p3:
            res.add("R01.c", "process_stack_ops/%s/%s" % (op, p3[0].split(":")[0][:50].replace(" ", "_")),
                    "simulated stack effect of %s drifts from the reference (depth/MARK): %s" % (op, "; ".join(p3)),
                    PV.op_loc(env, "::process_stack_ops"), PV.sample(lf, p3))
        if len(samples) < 5 and lf.pre:
            samples.append(PV.sample(lf, []))
    res.floor("R01.b", 300, "emission leaves")
    # O5: what is appended is one well-formed opcode (otherwise the byte stream and the simulation part ways:
    # e.g. a raw newline inside a newline-terminated argument turns the rest of the argument into opcodes)
    import rules_c04
    tmp = Result("C01", "model_checking")
    rules_c04.emission_findings(env, tmp, tr, "safe")
    for f in tmp.findings:
        res.add("R01.g", f.key.split("/", 2)[2], "emitted bytes are not the one well-formed opcode the simulation assumes: " + f.msg, f.where, f.detail)
    # STOP and FRAME are never candidates
    for op in ("Stop",):
        lvs = tr.get(op)
        if not isinstance(lvs, Exception) and any(lf.can_emit for lf in lvs):
            res.add("R01.e", "can_emit/Stop/true", "can_emit(Stop) can be true: STOP could be chosen inside the body", PV.op_loc(env, "::can_emit"))
    ncl, nsteps = cleanup_checks(env, res)
    ngen = generate_structure_checks(env, res)
    PV.proto_invariant_premise(env, res, "C01")
    PV.default_flags_premise(env, res, ["unsafe_mutations"], "a generator nobody asked unsafe mutations of must be in safe mode")
    # R01.f: in safe mode no Mutator::post_process writes to the output
    table = mutsum.MutatorTable(env.prog)
    mf = H.models_factory(env.prog, env.ctx, False)
    for first, nonempty in ((None, True), (None, False), (0x4b, True), (0x8c, True)):
        res.count("R01.f")
        summ = mutsum.summarise_post_process(env.prog, env.ctx, table, first, nonempty, False, mf)
        for e in summ["effects"]:
            res.add("R01.f", "post_process/%s/writes-in-safe-mode" % e["self_ty"].split("::")[-1],
                    "%s::post_process rewrites emitted bytes although unsafe_mode is false: %r" % (e["self_ty"], [w[0] for w in e["effect"]]),
                    None)
    bfs = PV.bfs_pass(env, res, "C01")
    PV.coverage_mc(res, env, tr, n, nobl + nsteps, samples, dict(bfs, collapse_leaves=ncl, collapse_steps=nsteps, generate_internal_leaves=ngen))
    res.assumptions = PV.ASSUME_PVM + [
        "safe = unsafe_mutations false and every mutator constructed with unsafe_mode false",
        "loop-carried scalar locals of the collapse loops are havocked (no relational invariant between a counter and the depth)"]
    return res
