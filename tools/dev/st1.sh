#!/bin/bash
# usage: st1.sh patch Cxx  -> prints findings text
d=$(mktemp -d /tmp/pfz-st1-XXXX)
git -C /repo worktree add --detach -f $d/repo ${PFZ_BASE:-HEAD} >/dev/null 2>&1
git -C $d/repo apply --whitespace=nowarn $1 || echo "PATCH FAILED"
shift
for c in "$@"; do PFZ_REPO=$d/repo PFZ_OUT_ROOT=$d/o timeout 1500 /verif/check $c 2>&1 | grep -E "key|what|OK|where" | cut -c1-700 | head -${ST1_LINES:-24}; done
git -C /repo worktree remove --force $d/repo; rm -rf $d; git -C /repo worktree prune
