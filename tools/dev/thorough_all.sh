#!/bin/bash
cd /verif
for id in C01 C02 C03 C04 C05 C06 C07 C08 C09 C10 C11 C12 C13 C14 C15 C16 C17 C18; do
  s=$(date +%s)
  out=$(PFZ_OUT_ROOT=/tmp/thorough-out timeout 5400 ./check $id --tier thorough 2>&1); r=$?
  echo "$id rc=$r $(( $(date +%s) - s ))s $(echo "$out" | tail -1 | cut -c1-160)"
  [ $r -ne 0 ] && echo "$out" | grep -A4 VIOLATION | head -20
done
