import sys, os, json, concurrent.futures as cf
sys.path.insert(0, '/verif/tools')
import selftest
mode = sys.argv[1]
ids = sys.argv[2:]
ALL = ["C%02d" % i for i in range(1, 19)]
def work(i):
    d = '/verif/seeded/%s%s/patch.diff' % (i, os.environ.get('SUF','c'))
    if not os.path.exists(d):
        return i, "no patch"
    try:
        out = selftest.run(d, [i] if mode == 'own' else ALL, quiet=True)
        return i, {p: (rc, keys[:4]) for p, (rc, keys, err) in out.items() if rc != 0 or mode == 'own'}
    except Exception as e:
        return i, repr(e)
with cf.ThreadPoolExecutor(max_workers=6) as ex:
    for i, r in ex.map(work, ids):
        print(json.dumps({"seed": i, "result": r}), flush=True)
