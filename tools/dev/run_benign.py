import sys, os, json, glob, concurrent.futures as cf
sys.path.insert(0, '/verif/tools')
import selftest
ALL = ["C%02d" % i for i in range(1, 19)]
diffs = sys.argv[1:]
def work(d):
    try:
        out = selftest.run(d, ALL, quiet=True)
        return d, {p: (rc, keys[:5], err[-300:]) for p, (rc, keys, err) in out.items() if rc != 0}
    except Exception as e:
        return d, {"error": repr(e)}
with cf.ThreadPoolExecutor(max_workers=int(os.environ.get("BW","3"))) as ex:
    for d, bad in ex.map(work, diffs):
        print(json.dumps({"diff": d, "alarms": bad}), flush=True)
