import json,sys
recs=[json.loads(l) for l in open('/tmp/stat.jsonl')]
only=set(sys.argv[1:])
for r in recs:
    m=r['mut']
    if only and str(m['id']) not in only: continue
    dyn=set(r.get('viol',{})); st={p for p,x in r.get('static',{}).items() if x['rc']!=0}
    miss=dyn-st; extra=st-dyn
    if not miss and not extra and not only: continue
    print('== %d %s:%d [%s]'%(m['id'],m['file'],m['line'],m['op']))
    print('   -', m['old'].strip()[:150]); print('   +', m['new'].strip()[:150])
    for p in sorted(miss): print('   MISS ',p, r['ex'].get(p,'')[:150])
    for p in sorted(extra): print('   EXTRA',p, r['static'][p]['keys'][:3], 'rc',r['static'][p]['rc'])
    for p in sorted(dyn&st): print('   both ',p, r['static'][p]['keys'][:2])
