#!/bin/bash
# confirm round-4 seeds as they become available
declare -A done
for round in $(seq 1 200); do
  alld=1
  for i in 01 02 03 04 05 06 07 08 09 10 11 12 13 14 15 16 17 18; do
    [ -n "${done[$i]}" ] && continue
    if [ -f /tmp/seed5/C$i-out/meta.json ] && [ -f /tmp/seed5/C$i-out/patch.diff ]; then
      sleep 20
      echo "=== C$i"
      timeout 1800 python3 /verif/tools/confirm_seed.py C$i C${i}e /tmp/seed5 2>&1 | grep -E '"confirmed"|STORED|Error|assert|"rc"' | head -8
      done[$i]=1
    else
      alld=0
    fi
  done
  [ $alld -eq 1 ] && break
  sleep 60
done
echo ALLDONE
