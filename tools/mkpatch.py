#!/usr/bin/env python3
"""mkpatch.py <out.diff> <file> <old> <new> [<file> <old> <new> ...] : build a patch by exact replacement in a scratch worktree"""
import subprocess, sys, tempfile, shutil, os
out = os.path.abspath(sys.argv[1])
d = tempfile.mkdtemp(prefix="pfz-mk-")
try:
    subprocess.run(["git", "-C", "/repo", "worktree", "add", "--detach", "-f", d + "/r", "HEAD"], check=True, capture_output=True)
    a = sys.argv[2:]
    for i in range(0, len(a), 3):
        p = os.path.join(d, "r", a[i])
        t = open(p).read()
        assert t.count(a[i + 1]) == 1, (a[i], a[i + 1], t.count(a[i + 1]))
        open(p, "w").write(t.replace(a[i + 1], a[i + 2]))
    r = subprocess.run(["git", "-C", d + "/r", "diff"], capture_output=True, text=True, check=True)
    open(out, "w").write(r.stdout)
    print("wrote", out, len(r.stdout.splitlines()), "lines")
finally:
    subprocess.run(["git", "-C", "/repo", "worktree", "remove", "--force", d + "/r"], capture_output=True)
    shutil.rmtree(d, ignore_errors=True)
    subprocess.run(["git", "-C", "/repo", "worktree", "prune"], capture_output=True)
