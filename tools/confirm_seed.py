#!/usr/bin/env python3
"""confirm_seed.py <Cxx> [name]: independently confirm a seeded change produced in /tmp/seed/<Cxx>-out and store it under /verif/seeded/<name>/.
Steps (fresh scratch worktree of /repo HEAD): apply patch -> build -> pinned tests pass -> add demo -> demo FAILS -> revert patch -> demo PASSES."""
import json, os, shutil, subprocess, sys, tempfile, time
V = os.path.dirname(os.path.dirname(os.path.abspath(__file__)))
pid = sys.argv[1]
name = sys.argv[2] if len(sys.argv) > 2 else pid
base = sys.argv[3] if len(sys.argv) > 3 else "/tmp/seed"
src = "%s/%s-out" % (base, pid)
meta = json.load(open(os.path.join(src, "meta.json")))
d = tempfile.mkdtemp(prefix="pfz-confirm-")
repo = d + "/repo"
log = {}


def sh(cmd, cwd=repo, timeout=1500):
    env = dict(os.environ, CARGO_TARGET_DIR=d + "/target", CARGO_NET_OFFLINE="true")
    r = subprocess.run(cmd, shell=True, cwd=cwd, env=env, capture_output=True, text=True, timeout=timeout)
    return r.returncode, (r.stdout + r.stderr)[-3000:]

try:
    subprocess.run(["git", "-C", "/repo", "worktree", "add", "--detach", "-f", repo, "HEAD"], check=True, capture_output=True)
    # demos that look for <repo>/target find the scratch target directory there
    if not os.path.exists(repo + "/target"):
        os.symlink(d + "/target", repo + "/target")
    rc, out = sh("git apply --whitespace=nowarn %s/patch.diff" % src)
    assert rc == 0, "patch does not apply: " + out
    rc, out = sh("cargo build --offline 2>&1 | tail -2")
    log["build"] = out.strip()[-200:]
    rc, out = sh("cargo test --workspace --no-fail-fast --offline 2>&1 | grep -E '^test result|FAILED|failed' ")
    log["pinned_tests_with_patch"] = out.strip()
    passed = sum(int(l.split("ok. ")[1].split(" passed")[0]) for l in out.splitlines() if l.startswith("test result: ok."))
    failed = "FAILED" in out or "failed;" in out and any(" 0 failed" not in l for l in out.splitlines() if l.startswith("test result"))
    assert passed >= 61 and not failed, "pinned tests: " + out
    # demo files
    for fn, rel in meta.get("demo_files", {}).items():
        dst = os.path.join(repo, rel)
        os.makedirs(os.path.dirname(dst), exist_ok=True)
        shutil.copy(os.path.join(src, fn), dst)
    demo = meta["demo_cmd"].replace("%s/%s/target" % (base, pid), d + "/target").replace("%s/%s" % (base, pid), repo)
    t0 = time.time()
    rc1, out1 = sh(demo)
    log["demo_with_patch"] = {"rc": rc1, "tail": out1[-600:], "secs": round(time.time() - t0)}
    rc, out = sh("git apply -R --whitespace=nowarn %s/patch.diff" % src)
    assert rc == 0, out
    rc2, out2 = sh(demo)
    log["demo_without_patch"] = {"rc": rc2, "tail": out2[-300:]}
    ok = rc1 != 0 and rc2 == 0
    log["confirmed"] = ok
    print(json.dumps(log, indent=1)[:3000])
    if ok:
        dst = os.path.join(V, "seeded", name)
        os.makedirs(dst, exist_ok=True)
        shutil.copy(os.path.join(src, "patch.diff"), dst)
        for fn in meta.get("demo_files", {}):
            shutil.copy(os.path.join(src, fn), dst)
        meta["confirmed_by_me"] = {"what_i_ran": ["git apply patch.diff on a fresh worktree of /repo HEAD", "cargo build --offline",
                                                   "cargo test --workspace --no-fail-fast --offline (pinned suite: %d passed, 0 failed)" % passed,
                                                   demo + "  -> rc %d with the patch" % rc1, "git apply -R patch.diff; same command -> rc %d" % rc2],
                                   "repo_head": subprocess.run(["git", "-C", "/repo", "rev-parse", "--short", "HEAD"], capture_output=True, text=True).stdout.strip()}
        json.dump(meta, open(os.path.join(dst, "meta.json"), "w"), indent=1)
        print("STORED", dst)
finally:
    subprocess.run(["git", "-C", "/repo", "worktree", "remove", "--force", repo], capture_output=True)
    shutil.rmtree(d, ignore_errors=True)
    subprocess.run(["git", "-C", "/repo", "worktree", "prune"], capture_output=True)
