#!/usr/bin/env bash
# run every claimed check (quick tier) on /repo and refresh /verif/evidence
cd "$(dirname "$0")/.."
rc=0
for id in $(python3 -c "import json;print(' '.join(c['property_id'] for c in json.load(open('MANIFEST.json'))['checks']))"); do
  out=$(./check $id --tier ${1:-quick} 2>&1); r=$?
  echo "$id rc=$r $(echo "$out" | tail -1 | cut -c1-160)"
  [ $r -ne 0 ] && rc=1 && echo "$out" | grep -A4 VIOLATION | head -20
done
python3-vt - <<'PY'
import json,jsonschema,glob
s=json.load(open('/root/.vp/EVIDENCE.schema.json'))
for f in sorted(glob.glob('/verif/evidence/*.json')):
    try: jsonschema.validate(json.load(open(f)),s)
    except Exception as e: print("EVIDENCE INVALID",f,str(e)[:200])
print("evidence validated")
PY
exit $rc
