#!/usr/bin/env python3
"""Regenerate /verif/MANIFEST.json from the claim table below (single source of truth)."""
import json, os
V = os.path.dirname(os.path.dirname(os.path.abspath(__file__)))
props = [json.loads(l) for l in open(os.path.join(V, "properties.jsonl"))]

CLAIMS = {
 "C01": dict(cat="model_checking", tech="MIR abstract interpretation + inductive invariant against a reference PVM",
   text="Induction over the emitted opcode sequence: for every OpcodeKind and every leaf of the abstract interpretation of can_emit;emit_and_process over lazily materialised stacks (depth<=D) the guard implies the flat-stack pickletools.dis precondition (O1) and the simulated effect equals the reference effect (O3); every path of cleanup_for_stop (loop-carried scalars havocked) ends at depth 1; STOP is emitted once, last; post_process is inert in safe mode; plus a breadth-first pass over reachable kind-level states against an independent concrete reference machine.",
   note="trusted: rustc MIR, std/dep models in analysis/models*.py, reference/pvm_spec.json; stacks deeper than D only via the window argument (DESIGN 3.4)", ref="4/C01"),
 "C02": dict(cat="model_checking", tech="MIR abstract interpretation, memo size classes {0,1,2,255,256,257}, index-term identity",
   text="For every PUT-family leaf the stored and emitted index equals len(memo) (fresh under the contiguous-key invariant) in every memo size class, the guard establishes a non-MARK top and the store is not skipped; every GET-family leaf in safe mode emits an index proved to be a memo key (element of the key list or guarded by contains_key) for unconstrained results of dyn Mutator::mutate_memo_index; the key parsed back by the simulation is the emitted term.",
   note="assumes memo.len() < 2^32; mutator results are the join over all Mutator impls in the crate; shared premises are findings of this check too: fresh valid-opcode list per iteration, proto_emitted invariant, default configuration is safe mode, every emission is one well-formed opcode (O5)", ref="4/C02"),
 "C03": dict(cat="model_checking", tech="MIR abstract interpretation of guards and helper predicates vs. kind-level reference preconditions",
   text="Every enabled leaf of every kind-constrained opcode has materialised the required operand slots with StackObject variants that map into the class the reference machine requires (O2), helper predicates are interpreted not trusted; plus breadth-first enumeration of opcode-choice sequences from the empty stack with an independent concrete reference machine.",
   note="kind classes and clauses come from reference/pvm_spec.json (C03 statement only); prerequisites checked here as well: kind/depth part of O3, memo-key identity, memo store count, O5, fresh valid-opcode list, proto_emitted invariant, default configuration is safe mode", ref="4/C03"),
 "C17": dict(cat="model_checking", tech="MIR abstract interpretation of process_stack_ops vs. reference effects (O3/O5) + lock-step BFS",
   text="For every opcode and leaf the simulated stack/memo effect equals the reference effect slot by slot (depth, MARK positions, kind classes, memo stores), the argument handed to process_stack_ops is the appended one (key identity), silent-skip branches are shown infeasible; the breadth-first pass compares sim and ref after every transition on reachable states.",
   note="kind level only (values are irrelevant to the property)", ref="4/C17"),
}

CLAIMS.update({
 "C04": dict(cat="proof", tech="emission-term grammar check of every emitter leaf against the pickletools argument readers, safe and unsafe configurations",
   text="Finite exhaustive check: T1 (as_u8 of all 68 OpcodeKinds, extracted by interpreting the MIR) equals the reference code table and is injective; for every emission leaf of every opcode arm (incl. emit_int/emit_string/emit_bytes/emit_global variants, both with unsafe mutations/type-confusion rewrites enabled and disabled) the appended byte-part sequence is derivable from the reference reader of that opcode (fixed-width ints and endianness, length prefix == payload length and fits, quoted/escaped STRING literal via the concrete escape chain on every charset element, decimal/float Display literals, newline-free payloads), domain clauses (EXT codes >= 1 and EXT4 <= 2^31-1, non-negative memo indices), collapse-phase/PROTO/FRAME/STOP sites.",
   note="trusted: Rust Display of ints/f64 is accepted by Python int()/float(); String is UTF-8; reference/opcodes.json", ref="4/C04"),
 "C05": dict(cat="proof", tech="table extraction + opcode provenance per protocol over all emission leaves",
   text="For all P and all k in T2[P] (table evaluated from the static's MIR) proto(k) <= P; every opcode decoded from every safe emission leaf, collapse-phase step and header write has proto <= P for each protocol the leaf applies to; PROTO P is the first write for P>=2, absent for P<2, never emitted in the body (typestate on proto_emitted); every byte of protocol-0 leaves is 7-bit.",
   note="trusted: proto column of reference/opcodes.json", ref="4/C05"),
})

CLAIMS.update({
 "C06": dict(cat="proof", tech="who-may-emit rule + ordering and linear-term rule on the interpreted generate_internal",
   text="FRAME's byte is written only by the in-place patch of generate_internal; can_emit(Frame) is false on every leaf and no emission leaf (safe or unsafe rewrite), collapse step or header decodes to FRAME; the 9 reserved bytes exist only for protocols 4/5 directly after PROTO; the patched size is, as a linear term over the opaque appended lengths, (output length after STOP) - (position + 9), written as 8 LE bytes at position+1, with no write after it; every truncation during the body targets the opcode boundary recorded by create_snapshot, which only emit_and_process calls.",
   note="emit_and_process / cleanup_for_stop are stubbed as append-only in this rule; that they are append-only is what R06.d/R04.c check on their own leaves", ref="4/C06"),
 "C08": dict(cat="other", tech="must-pass-through / non-interference on the interpreted generate_internal from an unknown entry state + field coverage of reset()",
   text="generate_internal is interpreted from a completely unknown scratch state: every use of output, stack, memo and proto_emitted is preceded by an event clearing it; reset() clears every scratch field; configuration fields are written by no generation, emission, collapse or reset leaf; entry points call generate_internal exactly once and return its result (every Ok path is the result of one call of this call); Mutator implementors have no interior-mutable fields (R08.f); unknown fields written by generation are not read as left by the previous call (R08.e); no mutable static/thread-local is reachable; the Python binding forwards generate_from_bytes to the same inner generator.",
   note="known field roles are fixed in analysis/absgen.py; a new scalar/enum/struct/byte-vector field gets a generic abstraction and its role (configuration vs per-pickle state) is inferred from which code writes it (R08.e); other new field types fail closed", ref="4/C08"),
 "C10": dict(cat="proof", tech="guard extraction + who-may-emit over all emission leaves (safe and unsafe) + default/writer rules",
   text="Every enabled leaf of EXT1/2/4 (NEXT_BUFFER/READONLY_BUFFER) has allow_ext_opcodes (allow_buffer_opcodes) materialised true; no emission leaf, unsafe type-confusion rewrite, collapse step or header decodes to one of the five opcodes unless its flag is true; Generator::new/Default are interpreted and yield both flags false; every with_*/set_* method is interpreted: a flag is only ever set to the method's own boolean argument, and no flag writer is reachable from a generation call; the valid-opcode list is the table row filtered by can_emit in the current state (shared premise); the two CLI flags are forwarded in both modes.",
   note="trusted: clap bool flags default to false", ref="4/C10"),
 "C11": dict(cat="other", tech="structural premises P1-P5 on interpreted leaves + fixed arithmetic lemma",
   text="P1 loop bound term = min + draw<(max-min) (or min), P2 one emit_and_process per counted iteration, P3 every feasible emission leaf (safe/unsafe) decodes to exactly one opcode, P4 net growth <= 1, P5 collapse tail <= items+marks+1; the totals follow by the lemma in DESIGN.md.",
   note="the closing arithmetic lemma is pen-and-paper; choose_index range from C18", ref="4/C11"),
 "C12": dict(cat="other", tech="table completeness + breadth-first witness search over the extracted transition relation (retried deeper/wider for pairs missed at the first bound) + candidate-list rule (get_valid_opcodes interpreted per opcode, real guard for opcodes it skips or drops) + written-opcode rule",
   text="Every standard opcode with proto<=P is listed in the protocol-P row; for every (P,k) a choice sequence from the empty stack reaches a state where can_emit(k) holds (witness in evidence); get_valid_opcodes consults the guard of every row opcode and offers it when the guard holds (an opcode it skips or drops must still be offered in some abstract state where its real guard holds); framed and unframed paths exist for P>=4. The existence of a witness seed in a fixed range is not decided (probabilistic).",
   note="necessary condition only: precondition satisfiable on a reachable state", ref="4/C12"),
})

CLAIMS.update({
 "C15": dict(cat="other", tech="dominance of the rate gate on interpreted mutator paths + finite IEEE ordering-class evaluation of the gate + loop-shape rule",
   text="Every path of every Mutator impl method that applies a mutation or writes output first compares a draw with the rate; that comparison is evaluated over the value classes the draw can take (from interpreting the EntropySource method in both entropy modes, incl. the exhausted-input fallback) for rate 0.0 (must stay closed) and 1.0 (must open); the six value-mutation loops forward self.mutation_rate and the current value, stop at the first Some and return it.",
   note="trusted: rand's f64 draw lies in [0,1); arbitrary() yields any value or Err", ref="4/C15"),
 "C16": dict(cat="other", tech="term-shape / interval / charset clauses on the results of every firing mutator path",
   text="Per mutator: XOR with a single bit inside the operand width; boundary tables subset of the documented constants; wrapping/saturating +-1; memo index +-1 (safe) or < 1000 (unsafe); one replaced item in the printable range with unchanged length; prefix / +1..9 items / doubled; type confusion replaces exactly the value-pushing opcodes by one well-formed opcode of another kind and only in unsafe mode; no reachable panic site in any mutator.",
   note="chars().take(n) prefix semantics trusted; algebraically equivalent rewrites of a term are reported (stated in DESIGN); mutate_string is also interpreted on strings with multi-byte characters (no panic, same clauses)", ref="4/C16"),
 "C18": dict(cat="proof", tech="interpretation of source.rs against five library contracts + interval/relational inclusion",
   text="For every EntropySource method and both entropy sources, every outcome of the library calls (incl. Err on exhausted input): index < n (0 for n=0), range draw in [a,b) (a when a>=b), printable ASCII characters, byte strings of the requested length, no reachable panic (empty-range and a>b calls are guarded), no Result escapes, fixed fallback on exhaustion.",
   note="trusted base = the five rand/arbitrary contracts listed in evidence", ref="4/C18"),
})

CLAIMS.update({
 "C07": dict(cat="other", tech="whole-program effect analysis on the resolved call graph (deny list, hash-iteration order rule, pointer-to-integer rule)",
   text="Every external callee reachable from Generator::generate / generate_from_arbitrary (incl. closures, fn items and all impls behind dyn Mutator) is classified deterministic or reported; time/env/pid/thread/OS-RNG/hash-seed/address/I-O/shared-state callees are denied (from_os_rng only on the seed==None edge); every HashMap/HashSet iteration needs a sort that dominates each indexed use; pointer->integer only inside StackObjectRef::hash; statics are immutable or a OnceLock with a constant initialiser; the CLI draws OS randomness only when neither --seed nor --protocol is given.",
   note="trusted: rand_chacha/arbitrary/phf are deterministic; rayon distributes independent closure calls", ref="4/C07"),
 "C09": dict(cat="other", tech="panic/Err site inventory from MIR, discharged by exhaustive abstract interpretation (block coverage) with RefCell borrow typestate",
   text="All Assert terminators and calls to panicking functions in bodies reachable from the public API are enumerated; each is discharged because the exhaustive abstract interpretation (all opcode arms from all invariant states safe+unsafe, collapse phase, generate_internal, mutators, entropy adapters, entry points/builders with symbolic arguments incl. NaN rates and inverted ranges) executes it without any path panicking, or never reaches it; Err construction, unbounded loops and empty results are reported.",
   note="not decided: stack exhaustion by recursive drop, allocation failure, panics inside dependencies", ref="4/C09"),
 "C14": dict(cat="other", tech="ownership-shape rules: cycle capability of the Rc graph, storing sites from the interpreter's events, tear-down search, leak-call deny list",
   text="StackObjectRef is reachable from its own payload; every opcode that stores a live handle into an existing cell is listed from the interpreter's StoreInto events and, with an alias-creating opcode and no tear-down, reported (six known findings, each replayed against the real code); no mem::forget/Box::leak/Rc::into_raw and no handle-holding static.",
   note="the property is violated today (known findings D9); the check detects new storing sites / deliberate leaks, not heap equality itself", ref="4/C14"),
})

CLAIMS.update({
 "C13": dict(cat="other", tech="option-forwarding dataflow by interpreting main() linked with the library on an abstract Cli + abstract interpretation of action-run.sh with a clap parse model over the argument table read from the derive MIR + sibling agreement + parsers for action.yml / fuzzer.py",
   text="At every generate() call reached by main() in single-file and batch mode (all Option/flag/IO outcomes, six mutator lists incl. one out of declaration order with a repeated kind) the generator configuration equals the Cli values field by field: protocol (or seed mod 6), seed, opcode range, unsafe/ext/buffer flags unconditionally, mutator list = library expansion of 'all' and create(kind, unsafe), rate through with_mutation_rate when not inert; batch: index space 0..samples, DIR/<idx>.pkl, errors imply a non-zero exit; MutatorKind::create agrees with the clap value names; PyGenerator methods interpreted (set_opcode_range keeps every other field, constructor forwards protocol/seed, 1:1 forwarding); action-run.sh/action.yml/fuzzer.py parsed against the flag table.",
   note="clap, pyo3, bash, rayon trusted; byte equality then follows from C07/C08", ref="4/C13"),
})

NA_DEFAULT = "check not built yet (build in progress; see DESIGN.md section 6 build order)"
NA = {}

checks = []
for p in props:
    pid = p["id"]
    if pid in CLAIMS:
        c = CLAIMS[pid]
        checks.append({
            "property_id": pid,
            "quick_cmd": "./check %s --tier quick" % pid,
            "thorough_cmd": "./check %s --tier thorough" % pid,
            "evidence_file": "/verif/evidence/%s.json" % pid,
            "replay_cmd_template": "./check %s --replay {path}" % pid,
            "engine": "pvm-ai",
            "level_claimed": {"category": c["cat"], "text": c["text"], "design_ref": "DESIGN.md section " + c["ref"]},
            "level_note": c["note"],
            "technique": "static analysis: " + c["tech"],
        })
m = {
 "version": 1,
 "setup_cmd": "./setup.sh",
 "hooks": {"guard": "pickle_fuzzer_verif", "enable": "none - the analysis reads MIR of the unmodified crate; no instrumentation is compiled in",
           "baseline_off_cmd": "cd /repo && cargo test --workspace --no-fail-fast --offline", "source_commits": [], "add_only": True},
 "engines": [
   {"name": "pfz-facts", "path": "driver/", "serves_properties": sorted(CLAIMS), "kind_free_text": "rustc_private driver exporting MIR/ADT/const facts as JSON (no rules)"},
   {"name": "pvm-ai", "path": "analysis/", "serves_properties": sorted(CLAIMS), "kind_free_text": "Python MIR abstract interpreter + rule modules (static analysis; nothing of /repo is executed)"},
 ],
 "checks": checks,
 "not_applicable": [{"property_id": p["id"], "reason": NA.get(p["id"], NA_DEFAULT)} for p in props if p["id"] not in CLAIMS],
 "notes": "Static analysis over rustc MIR facts of /repo's current working tree; see DESIGN.md. Known genuine defects are listed in known_findings.txt.",
}
json.dump(m, open(os.path.join(V, "MANIFEST.json"), "w"), indent=1)
print("claimed:", sorted(CLAIMS))
