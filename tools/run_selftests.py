#!/usr/bin/env python3
"""run_selftests.py [Cxx ...]: apply every self-test mutant / seeded change to a scratch copy and check that the
expected rule fires (and that behaviour-preserving rewrites stay quiet).  16-way parallel."""
import json, os, sys, concurrent.futures as cf
V = os.path.dirname(os.path.dirname(os.path.abspath(__file__)))
sys.path.insert(0, os.path.join(V, "tools"))
import selftest

man = json.load(open(os.environ.get("PFZ_SELFTEST_MANIFEST") or os.path.join(V, "selftest", "manifest.json")))
only = set(sys.argv[1:])
jobs = []
for m in man["mutants"]:
    pids = [p for p in m["expect"] if not only or p in only]
    if pids:
        jobs.append(("mutant", m, pids))
for m in man["quiet"]:
    pids = [p for p in m["checks"] if not only or p in only]
    if pids:
        jobs.append(("quiet", m, pids))


def work(job):
    kind, m, pids = job
    out = selftest.run(os.path.join(V, m["patch"]), pids, quiet=True)
    bad = []
    for p in pids:
        rc, keys, err = out[p]
        if kind == "mutant":
            want = m["expect"][p]
            if rc != 1 or not all(any(w in k for k in keys) for w in want):
                bad.append("%s: %s expected a finding matching %r, got rc=%d keys=%r %s" % (m["patch"], p, want, rc, keys[:3], err[-200:]))
        else:
            if rc != 0:
                bad.append("%s: %s must stay quiet, got rc=%d keys=%r %s" % (m["patch"], p, rc, keys[:3], err[-200:]))
    return m["patch"], bad

fails = []
with cf.ThreadPoolExecutor(max_workers=int(os.environ.get("PFZ_JOBS", "6"))) as ex:
    for patch, bad in ex.map(work, jobs):
        print(("FAIL " if bad else "ok   ") + patch)
        fails += bad
for b in fails:
    print("SELFTEST-FAILED", b)
print("%d jobs, %d failures" % (len(jobs), len(fails)))
sys.exit(2 if fails else 0)
