#!/usr/bin/env python3
"""Development aid: enumerate single-line source mutants of /repo (deterministic)."""
import json, os, random, re, sys

FILES = ["src/generator/validation.rs", "src/generator/utils.rs", "src/generator/stack_ops.rs", "src/generator/emission.rs",
         "src/generator/core.rs", "src/generator/source.rs", "src/generator/mutation.rs", "src/opcodes.rs",
         "src/mutators/bitflip.rs", "src/mutators/boundary.rs", "src/mutators/offbyone.rs", "src/mutators/stringlen.rs",
         "src/mutators/character.rs", "src/mutators/memoindex.rs", "src/mutators/typeconfusion.rs", "src/state.rs", "src/stack.rs",
         "src/generator/mod.rs", "src/main.rs", "src/mutators/mod.rs"]

OPS = [
    ("relop", r"(?<![<>=!-])>=(?!=)", ">"), ("relop", r"(?<![<>=!-])<=(?!=)", "<"),
    ("relop", r"(?<![<>=!&-]) > (?![=>])", " >= "), ("relop", r"(?<![<>=!-]) < (?![=<])", " <= "),
    ("relop", r" == ", " != "), ("relop", r" != ", " == "),
    ("logic", r" && ", " || "), ("logic", r" \|\| ", " && "),
    ("neg", r"!self\.", "self."), ("neg", r"!matches!", "matches!"),
    ("lit", r"\b0\b(?![.x_])", "1"), ("lit", r"\b1\b(?![.x_0-9])", "2"), ("lit", r"\b2\b(?![.x_0-9])", "1"), ("lit", r"\b3\b(?![.x_0-9])", "2"),
    ("lit", r"\b256\b", "255"), ("lit", r"\b255\b", "256"), ("lit", r"\b32\b", "33"), ("lit", r"\b9\b", "8"), ("lit", r"\b8\b", "9"), ("lit", r"\b4\b", "8"),
    ("opc", r"\bTuple2\b", "Tuple3"), ("opc", r"\bTuple3\b", "Tuple2"), ("opc", r"\bTuple\b(?!\()", "List"), ("opc", r"\bPop\b", "PopMark"),
    ("opc", r"StackObject::List\(", "StackObject::Tuple("), ("opc", r"StackObject::Dict\(", "StackObject::Set("), ("opc", r"StackObject::Tuple\(", "StackObject::List("),
    ("opc", r"StackObject::Bytes\(", "StackObject::ByteArray("), ("opc", r"StackObject::String\(", "StackObject::Bytes(String::into_bytes("),
    ("endian", r"to_le_bytes", "to_be_bytes"), ("endian", r"to_be_bytes", "to_le_bytes"),
    ("arith", r"saturating_sub", "saturating_add"), ("arith", r"wrapping_add", "wrapping_sub"), ("arith", r" \+ 1\b", " + 2"), ("arith", r" - 1\b", " - 2"),
    ("call", r"\.sort_unstable\(\);", ";"), ("call", r"self\.pop\(\);", ";"), ("call", r"\.reverse\(\);", ";"), ("call", r"self\.reset\(\);", ";"),
    ("bool", r"\btrue\b", "false"), ("bool", r"\bfalse\b", "true"),
    ("ver", r"Version::V2", "Version::V3"), ("ver", r"Version::V4", "Version::V3"), ("ver", r"Version::V0", "Version::V1"),
]


def main(repo, n, seed):
    cands = []
    for f in FILES:
        p = os.path.join(repo, f)
        if not os.path.exists(p):
            continue
        lines = open(p).read().split("\n")
        in_test = False
        for i, ln in enumerate(lines):
            if "#[cfg(test)]" in ln:
                in_test = True
            if in_test:
                continue
            s = ln.strip()
            if not s or s.startswith("//") or s.startswith("#[") or s.startswith("use ") or "debug_assert" in s or s.startswith("///"):
                continue
            code = ln.split("//")[0]
            for name, rx, rep in OPS:
                for m in re.finditer(rx, code):
                    new = code[:m.start()] + rep + code[m.end():] + ln[len(code):]
                    if "String::into_bytes(" in rep:
                        continue
                    if new != ln:
                        cands.append({"file": f, "line": i + 1, "op": name, "old": ln, "new": new})
    rnd = random.Random(seed)
    rnd.shuffle(cands)
    # stratify: at most 12 per (file, op)
    out, cnt = [], {}
    for c in cands:
        k = (c["file"], c["op"])
        if cnt.get(k, 0) >= 6:
            continue
        cnt[k] = cnt.get(k, 0) + 1
        out.append(c)
        if len(out) >= n:
            break
    return out, len(cands)


if __name__ == "__main__":
    repo = sys.argv[1]
    n = int(sys.argv[2])
    seed = int(sys.argv[3]) if len(sys.argv) > 3 else 1
    out, total = main(repo, n, seed)
    json.dump(out, sys.stdout, indent=0)
    sys.stderr.write("%d candidates, %d selected\n" % (total, len(out)))
