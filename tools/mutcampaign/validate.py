#!/usr/bin/env python3
"""Development aid only: label one oracle output (lines of pfz_oracle) with the properties it violates."""
import collections, io, os, pickletools, subprocess, sys, tempfile

SAFE = ("plain", "short", "long", "safemut", "optin", "arb", "arbmut", "reuse_b", "reuse_f")
OPT = {"EXT1", "EXT2", "EXT4", "NEXT_BUFFER", "READONLY_BUFFER"}
VOC = {p: {o.name for o in pickletools.opcodes if o.proto <= p} for p in range(6)}


def main(path, kind_checker):
    viol = collections.Counter()
    ex = {}
    seen = {p: set() for p in range(6)}
    framed = {4: [0, 0], 5: [0, 0]}
    reuse = {}
    kind_lines = []

    def v(prop, msg):
        viol[prop] += 1
        ex.setdefault(prop, msg[:160])
    for line in open(path):
        parts = line.split()
        if len(parts) != 7:
            continue
        cfg, p, seed, status, mn, mx, hx = parts
        p, mn, mx = int(p), int(mn), int(mx)
        if status != "ok":
            v("C09", "%s P%d seed %s: %s" % (cfg, p, seed, status))
            continue
        b = bytes.fromhex(hx)
        if not b:
            v("C09", "empty output")
            continue
        try:
            ops = list(pickletools.genops(b))
        except Exception as e:
            v("C04", "%s P%d seed %s: %s" % (cfg, p, seed, e))
            continue
        names = [o.name for o, a, pos in ops]
        if names.count("STOP") != 1 or names[-1] != "STOP" or ops[-1][2] != len(b) - 1:
            v("C04", "%s P%d seed %s: STOP misplaced" % (cfg, p, seed))
        for o, a, pos in ops:
            if o.name in ("EXT1", "EXT2", "EXT4") and (a is None or a < 1):
                v("C04", "EXT code %r" % (a,))
        # FRAME
        fpos = [i for i, n in enumerate(names) if n == "FRAME"]
        if fpos:
            if p < 4 or len(fpos) > 1 or fpos[0] != 1 or names[0] != "PROTO":
                v("C06", "%s P%d seed %s: FRAME placement %r" % (cfg, p, seed, fpos))
            else:
                ln = ops[1][1]
                if ln != len(b) - 11:
                    v("C06", "%s P%d seed %s: FRAME length %d vs %d" % (cfg, p, seed, ln, len(b) - 11))
        if p >= 4 and cfg == "plain":
            framed[p][1 if fpos else 0] += 1
        if cfg == "unsafe":
            if any(n in ("NEXT_BUFFER", "READONLY_BUFFER") for n in names):
                v("C10", "buffer opcode without flag (unsafe cfg)")
            continue
        # safe configurations
        if cfg != "optin" and any(n in OPT for n in names):
            v("C10", "%s P%d seed %s: opt-in opcode %s" % (cfg, p, seed, [n for n in names if n in OPT][:2]))
        try:
            pickletools.dis(b, out=io.StringIO())
        except Exception as e:
            msg = str(e)
            v("C02" if "memo" in msg else "C01", "%s P%d seed %s: %s" % (cfg, p, seed, msg))
        mxp = max(o.proto for o, a, pos in ops)
        if mxp > p:
            v("C05", "%s P%d seed %s: opcode of protocol %d" % (cfg, p, seed, mxp))
        if (p >= 2) != (names[0] == "PROTO") or names.count("PROTO") > 1 or (p >= 2 and ops[0][1] != p):
            v("C05", "%s P%d seed %s: PROTO header" % (cfg, p, seed))
        if p == 0 and any(c > 127 for c in b):
            v("C05", "P0 non-ascii")
        n = len(names)
        if not (mn + 1 <= n <= 3 * max(mn, mx) + 4):
            v("C11", "%s P%d seed %s: %d opcodes for (%d,%d)" % (cfg, p, seed, n, mn, mx))
        if cfg == "plain":
            seen[p] |= set(names)
        if cfg.startswith("reuse"):
            reuse.setdefault((p, seed), {})[cfg] = hx
        kind_lines.append("%d %s %s" % (p, seed + cfg, hx))
    for (p, seed), d in reuse.items():
        if len(d) == 2 and d["reuse_b"] != d["reuse_f"]:
            v("C08", "P%d seed %s: reused generator differs from fresh" % (p, seed))
    # kind discipline through the independent checker
    if kind_checker and kind_lines:
        with tempfile.NamedTemporaryFile("w", suffix=".txt", delete=False) as fh:
            fh.write("\n".join(kind_lines) + "\n")
        r = subprocess.run([sys.executable, kind_checker, fh.name], capture_output=True, text=True)
        os.unlink(fh.name)
        if r.returncode != 0:
            nv = sum(1 for l in r.stdout.splitlines() if "VIOLATION" in l.upper() or ":" in l)
            viol["C03"] += max(nv, 1)
            ex.setdefault("C03", r.stdout.strip().splitlines()[0][:160] if r.stdout.strip() else "kind violation")
    for p in (4, 5):
        if framed[p][0] == 0 or framed[p][1] == 0:
            v("C12", "P%d framed/unframed %r" % (p, framed[p]))
    return viol, ex, seen


if __name__ == "__main__":
    viol, ex, seen = main(sys.argv[1], sys.argv[2] if len(sys.argv) > 2 else None)
    import json
    print(json.dumps({"violations": dict(viol), "examples": ex, "seen": {str(p): sorted(s) for p, s in seen.items()}}))
