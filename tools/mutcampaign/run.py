#!/usr/bin/env python3
"""Development aid (not a registered check): compare static verdicts with a dynamic oracle on source mutants.
  run.py dyn  <mutants.json> <out.jsonl> [workers]   build + pinned tests + dynamic oracle per mutant
  run.py stat <dyn.jsonl>    <out.jsonl> [workers]   static checks on the mutants that compile and pass the tests
Everything lives in scratch worktrees under /tmp which are removed at the end."""
import json, os, subprocess, sys, shutil, threading, queue, fcntl, time
HERE = os.path.dirname(os.path.abspath(__file__))
V = os.path.dirname(os.path.dirname(HERE))
sys.path.insert(0, HERE)
import validate
ENV = dict(os.environ, CARGO_NET_OFFLINE="true")
STATIC = ["C01", "C02", "C03", "C04", "C05", "C06", "C07", "C08", "C09", "C10", "C11", "C12", "C15", "C16", "C17", "C18"]


def sh(cmd, cwd=None, env=None, timeout=900):
    try:
        r = subprocess.run(cmd, cwd=cwd, env=env or ENV, capture_output=True, text=True, timeout=timeout)
        return r.returncode, r.stdout, r.stderr
    except subprocess.TimeoutExpired as e:
        return 124, (e.stdout or b"").decode(errors="replace") if isinstance(e.stdout, bytes) else (e.stdout or ""), "timeout"


def wt_add(d):
    with open("/tmp/pfz-worktree.lock", "w") as lk:
        fcntl.flock(lk, fcntl.LOCK_EX)
        rc, o, e = sh(["git", "-C", "/repo", "worktree", "add", "--detach", "-f", d, "HEAD"])
        if rc:
            raise RuntimeError(e)


def wt_rm(d):
    with open("/tmp/pfz-worktree.lock", "w") as lk:
        fcntl.flock(lk, fcntl.LOCK_EX)
        sh(["git", "-C", "/repo", "worktree", "remove", "--force", d])
        shutil.rmtree(d, ignore_errors=True)
        sh(["git", "-C", "/repo", "worktree", "prune"])


def apply_mut(wt, m):
    p = os.path.join(wt, m["file"])
    lines = open(p).read().split("\n")
    assert lines[m["line"] - 1] == m["old"], (m, lines[m["line"] - 1])
    lines[m["line"] - 1] = m["new"]
    open(p, "w").write("\n".join(lines))


def dyn_one(wt, tgt, m, base_seen):
    sh(["git", "-C", wt, "checkout", "--", "."])
    rec = {"mut": m}
    if m.get("file"):
        apply_mut(wt, m)
    env = dict(ENV, CARGO_TARGET_DIR=tgt)
    rc, o, e = sh(["cargo", "test", "--workspace", "--no-fail-fast", "--offline"], cwd=wt, env=env, timeout=900)
    if rc != 0:
        rec["status"] = "build-fail" if "could not compile" in e else ("tests-timeout" if rc == 124 else "tests-fail")
        return rec
    os.makedirs(os.path.join(wt, "examples"), exist_ok=True)
    shutil.copy(os.path.join(HERE, "pfz_oracle.rs"), os.path.join(wt, "examples", "pfz_oracle.rs"))
    outs = []
    for k in range(2):
        rc, o, e = sh(["cargo", "run", "--release", "--offline", "--example", "pfz_oracle"], cwd=wt, env=env, timeout=600)
        if rc != 0:
            rec["status"] = "oracle-timeout" if rc == 124 else "oracle-crash"
            rec["viol"] = {"C09": 1}
            rec["ex"] = {"C09": e[-200:]}
            os.remove(os.path.join(wt, "examples", "pfz_oracle.rs"))
            return rec
        outs.append(o)
    os.remove(os.path.join(wt, "examples", "pfz_oracle.rs"))
    f = tgt + ".oracle.out"
    open(f, "w").write(outs[0])
    viol, ex, seen = validate.main(f, os.path.join(V, "seeded", "C03", "seed_demo_check.py"))
    os.remove(f)
    if outs[0] != outs[1]:
        viol["C07"] += 1
        ex["C07"] = "two runs of the oracle differ"
    if base_seen is not None:
        for p in range(6):
            miss = sorted(set(base_seen[str(p)]) - seen[p])
            if miss:
                viol["C12"] += len(miss)
                ex.setdefault("C12", "P%d never emits %s" % (p, miss))
    rec["status"] = "ok"
    rec["viol"] = dict(viol)
    rec["ex"] = ex
    rec["seen"] = {str(p): sorted(s) for p, s in seen.items()}
    return rec


def stage_dyn(mfile, out, workers):
    muts = json.load(open(mfile))
    q = queue.Queue()
    for i, m in enumerate(muts):
        m["id"] = i
        q.put(m)
    lock = threading.Lock()
    fh = open(out, "a")
    # baseline first (worker 0's worktree), to learn the reference opcode sets
    wt0, tg0 = "/tmp/mcW0", "/tmp/mcT0"
    shutil.rmtree(wt0, ignore_errors=True)
    wt_add(wt0)
    base = dyn_one(wt0, tg0, {"id": -1}, None)
    assert base["status"] == "ok" and not base["viol"], base
    base_seen = base["seen"]
    fh.write(json.dumps(base) + "\n")
    fh.flush()

    def worker(k):
        wt, tg = "/tmp/mcW%d" % k, "/tmp/mcT%d" % k
        if k:
            shutil.rmtree(wt, ignore_errors=True)
            wt_add(wt)
        try:
            while True:
                try:
                    m = q.get_nowait()
                except queue.Empty:
                    return
                t0 = time.time()
                try:
                    rec = dyn_one(wt, tg, m, base_seen)
                except Exception as e:
                    rec = {"mut": m, "status": "error", "err": repr(e)}
                rec.pop("seen", None)
                rec["secs"] = round(time.time() - t0)
                with lock:
                    fh.write(json.dumps(rec) + "\n")
                    fh.flush()
                    print(m["id"], m["file"], m["line"], m["op"], rec["status"], rec.get("viol"), flush=True)
        finally:
            wt_rm(wt)
            shutil.rmtree(tg, ignore_errors=True)
    ts = [threading.Thread(target=worker, args=(k,)) for k in range(workers)]
    [t.start() for t in ts]
    [t.join() for t in ts]


def stage_stat(dfile, out, workers):
    recs = [json.loads(l) for l in open(dfile)]
    recs = [r for r in recs if r["status"] in ("ok", "oracle-crash", "oracle-timeout") and r["mut"].get("file")]
    done = set()
    if os.path.exists(out):
        done = {json.loads(l)["mut"]["id"] for l in open(out)}
    q = queue.Queue()
    for r in recs:
        if r["mut"]["id"] not in done:
            q.put(r)
    lock = threading.Lock()
    fh = open(out, "a")

    def worker(k):
        while True:
            try:
                r = q.get_nowait()
            except queue.Empty:
                return
            m = r["mut"]
            d = "/tmp/mcS%d" % k
            shutil.rmtree(d, ignore_errors=True)
            os.makedirs(d)
            wt = d + "/repo"
            t0 = time.time()
            try:
                wt_add(wt)
                apply_mut(wt, m)
                env = dict(ENV, PFZ_REPO=wt, PFZ_OUT_ROOT=d + "/o")
                res = {}
                for pid in STATIC:
                    rc, o, e = sh([os.path.join(V, "check"), pid], env=env, timeout=1500)
                    keys = [l.split(":", 1)[1].strip() for l in o.splitlines() if l.strip().startswith("key")]
                    res[pid] = {"rc": rc, "keys": keys[:6]}
                r["static"] = res
            except Exception as e:
                r["static_err"] = repr(e)
            finally:
                wt_rm(wt)
                shutil.rmtree(d, ignore_errors=True)
            r["stat_secs"] = round(time.time() - t0)
            with lock:
                fh.write(json.dumps(r) + "\n")
                fh.flush()
                al = sorted(p for p, x in r.get("static", {}).items() if x["rc"] != 0)
                print(m["id"], m["file"], m["line"], "dyn", sorted(r.get("viol", {})), "static", al, r["stat_secs"], flush=True)
    ts = [threading.Thread(target=worker, args=(k,)) for k in range(workers)]
    [t.start() for t in ts]
    [t.join() for t in ts]


if __name__ == "__main__":
    w = int(sys.argv[4]) if len(sys.argv) > 4 else 6
    if sys.argv[1] == "dyn":
        stage_dyn(sys.argv[2], sys.argv[3], w)
    else:
        stage_stat(sys.argv[2], sys.argv[3], w)
