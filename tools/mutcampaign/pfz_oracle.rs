// Development aid only (NOT part of the registered checks): dynamic labelling of source mutants.
// Prints one line per generated sample:  <cfg> <protocol> <seed> <status> <min> <max> <hex>
use pickle_fuzzer::mutators::*;
use pickle_fuzzer::{Generator, Mutator, Version};
use std::panic::{catch_unwind, AssertUnwindSafe};

fn ver(p: usize) -> Version {
    Version::try_from(p).unwrap()
}

fn safe_mutators() -> Vec<Box<dyn Mutator>> {
    vec![
        Box::new(BitFlipMutator),
        Box::new(BoundaryMutator),
        Box::new(OffByOneMutator),
        Box::new(StringLengthMutator),
        Box::new(CharacterMutator),
        Box::new(MemoIndexMutator::new(false)),
        Box::new(TypeConfusionMutator::new(false)),
    ]
}

fn unsafe_mutators() -> Vec<Box<dyn Mutator>> {
    vec![
        Box::new(BitFlipMutator),
        Box::new(BoundaryMutator),
        Box::new(OffByOneMutator),
        Box::new(StringLengthMutator),
        Box::new(CharacterMutator),
        Box::new(MemoIndexMutator::new(true)),
        Box::new(TypeConfusionMutator::new(true)),
    ]
}

fn hex(b: &[u8]) -> String {
    b.iter().map(|x| format!("{:02x}", x)).collect()
}

fn emit(cfg: &str, p: usize, seed: u64, min: usize, max: usize, f: impl FnOnce() -> Option<Vec<u8>>) {
    let r = catch_unwind(AssertUnwindSafe(f));
    match r {
        Ok(Some(b)) => println!("{} {} {} ok {} {} {}", cfg, p, seed, min, max, hex(&b)),
        Ok(None) => println!("{} {} {} err {} {} -", cfg, p, seed, min, max),
        Err(_) => println!("{} {} {} panic {} {} -", cfg, p, seed, min, max),
    }
}

fn lcg_bytes(seed: u64, n: usize, style: u64) -> Vec<u8> {
    let mut s = seed.wrapping_mul(6364136223846793005).wrapping_add(1442695040888963407);
    (0..n)
        .map(|_| {
            s = s.wrapping_mul(6364136223846793005).wrapping_add(1442695040888963407);
            let b = (s >> 33) as u8;
            match style {
                0 => b,
                1 => if b < 128 { 0xff } else { b },
                2 => if b < 160 { 0x00 } else { b },
                _ => b | 0x7f,
            }
        })
        .collect()
}

fn main() {
    std::panic::set_hook(Box::new(|_| {}));
    for p in 0..6usize {
        for seed in 0..120u64 {
            emit("plain", p, seed, 60, 300, || Generator::new(ver(p)).with_seed(seed).generate().ok());
        }
        for seed in 0..60u64 {
            let (mn, mx) = [(0usize, 0usize), (0, 3), (1, 1), (2, 6), (5, 2), (3, 3)][(seed % 6) as usize];
            emit("short", p, seed, mn, mx, || Generator::new(ver(p)).with_seed(seed).with_opcode_range(mn, mx).generate().ok());
        }
        for seed in 0..3u64 {
            emit("long", p, seed, 1500, 1600, || Generator::new(ver(p)).with_seed(seed).with_opcode_range(1500, 1600).generate().ok());
        }
        for seed in 0..80u64 {
            emit("safemut", p, seed, 60, 300, || {
                Generator::new(ver(p)).with_seed(seed).with_mutators(safe_mutators()).with_mutation_rate(0.5).generate().ok()
            });
        }
        for seed in 0..60u64 {
            emit("optin", p, seed, 60, 300, || {
                Generator::new(ver(p)).with_seed(seed).with_ext_opcodes(true).with_buffer_opcodes(true).generate().ok()
            });
        }
        for seed in 0..50u64 {
            emit("unsafe", p, seed, 60, 300, || {
                Generator::new(ver(p))
                    .with_seed(seed)
                    .with_mutators(unsafe_mutators())
                    .with_mutation_rate(0.5)
                    .with_unsafe_mutations(true)
                    .with_ext_opcodes(true)
                    .generate()
                    .ok()
            });
        }
        for seed in 0..60u64 {
            let n = [0usize, 1, 2, 7, 64, 400, 2000][(seed % 7) as usize];
            let data = lcg_bytes(seed, n, seed % 4);
            emit("arb", p, seed, 60, 300, || Generator::new(ver(p)).generate_from_arbitrary(&data).ok());
            let d2 = data.clone();
            emit("arbmut", p, seed, 60, 300, || {
                Generator::new(ver(p)).with_mutators(safe_mutators()).with_mutation_rate(1.0).generate_from_arbitrary(&d2).ok()
            });
        }
        // reuse: second call on one generator vs fresh generator
        for seed in 0..20u64 {
            let d1 = lcg_bytes(seed, 300, 0);
            let d2 = lcg_bytes(seed + 1000, 300, 0);
            let d2b = d2.clone();
            emit("reuse_b", p, seed, 60, 300, || {
                let mut g = Generator::new(ver(p));
                let _ = g.generate_from_arbitrary(&d1);
                g.generate_from_arbitrary(&d2).ok()
            });
            emit("reuse_f", p, seed, 60, 300, || Generator::new(ver(p)).generate_from_arbitrary(&d2b).ok());
        }
    }
}
