#!/usr/bin/env python3
"""Apply a patch to a scratch copy of /repo and run checks against it.
usage: selftest.py <patch.diff> C01 C02 ...      (prints one line per check: id rc first-finding-key)
The scratch copy and its outputs live under /tmp and are removed afterwards."""
import os, shutil, subprocess, sys, tempfile, json, fcntl, time
V = os.path.dirname(os.path.dirname(os.path.abspath(__file__)))


def run(patch, pids, keep=False, quiet=False):
    d = tempfile.mkdtemp(prefix="pfz-mut-")
    out = {}
    try:
        with open("/tmp/pfz-worktree.lock", "w") as lk:
            fcntl.flock(lk, fcntl.LOCK_EX)
            for attempt in range(5):
                r0 = subprocess.run(["git", "-C", "/repo", "worktree", "add", "--detach", "-f", d + "/repo", os.environ.get("PFZ_BASE", "HEAD")], capture_output=True, text=True)
                if r0.returncode == 0:
                    break
                time.sleep(1 + attempt)
            else:
                raise RuntimeError("git worktree add failed: " + r0.stderr)
        repo = d + "/repo"
        if patch:
            r = subprocess.run(["git", "-C", repo, "apply", "--whitespace=nowarn", os.path.abspath(patch)], capture_output=True, text=True)
            if r.returncode != 0:
                raise RuntimeError("patch does not apply: " + r.stderr)
        env = dict(os.environ, PFZ_REPO=repo, PFZ_OUT_ROOT=d + "/o")
        for pid in pids:
            r = subprocess.run([os.path.join(V, "check"), pid], env=env, capture_output=True, text=True)
            keys = [l.split(":", 1)[1].strip() for l in r.stdout.splitlines() if l.strip().startswith("key")]
            out[pid] = (r.returncode, keys, r.stdout[-1500:] if r.returncode not in (0, 1) else "")
            if not quiet:
                print(pid, r.returncode, keys[:8], out[pid][2][-300:].replace("\n", " | "))
    finally:
        with open("/tmp/pfz-worktree.lock", "w") as lk:
            fcntl.flock(lk, fcntl.LOCK_EX)
            subprocess.run(["git", "-C", "/repo", "worktree", "remove", "--force", d + "/repo"], capture_output=True)
            shutil.rmtree(d, ignore_errors=True)
            subprocess.run(["git", "-C", "/repo", "worktree", "prune"], capture_output=True)
    return out


if __name__ == "__main__":
    run(sys.argv[1] if sys.argv[1] != "-" else None, sys.argv[2:])
