//! Minimal JSON value + writer (no external crates are available offline).

pub enum J {
    Null,
    Bool(bool),
    Int(i128),
    UInt(u128),
    Str(String),
    Arr(Vec<J>),
    Obj(Vec<(&'static str, J)>),
    Map(Vec<(String, J)>),
}

pub fn s<T: Into<String>>(x: T) -> J {
    J::Str(x.into())
}

pub fn obj(v: Vec<(&'static str, J)>) -> J {
    J::Obj(v)
}

fn esc(out: &mut String, x: &str) {
    out.push('"');
    for c in x.chars() {
        match c {
            '"' => out.push_str("\\\""),
            '\\' => out.push_str("\\\\"),
            '\n' => out.push_str("\\n"),
            '\r' => out.push_str("\\r"),
            '\t' => out.push_str("\\t"),
            c if (c as u32) < 0x20 => out.push_str(&format!("\\u{:04x}", c as u32)),
            c => out.push(c),
        }
    }
    out.push('"');
}

impl J {
    pub fn write(&self, out: &mut String) {
        match self {
            J::Null => out.push_str("null"),
            J::Bool(b) => out.push_str(if *b { "true" } else { "false" }),
            J::Int(i) => out.push_str(&i.to_string()),
            J::UInt(i) => out.push_str(&i.to_string()),
            J::Str(x) => esc(out, x),
            J::Arr(v) => {
                out.push('[');
                for (i, x) in v.iter().enumerate() {
                    if i > 0 {
                        out.push(',');
                    }
                    x.write(out);
                }
                out.push(']');
            }
            J::Obj(v) => {
                out.push('{');
                for (i, (k, x)) in v.iter().enumerate() {
                    if i > 0 {
                        out.push(',');
                    }
                    esc(out, k);
                    out.push(':');
                    x.write(out);
                }
                out.push('}');
            }
            J::Map(v) => {
                out.push('{');
                for (i, (k, x)) in v.iter().enumerate() {
                    if i > 0 {
                        out.push(',');
                    }
                    esc(out, k);
                    out.push(':');
                    x.write(out);
                }
                out.push('}');
            }
        }
    }
}
