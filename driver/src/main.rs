//! pfz-facts: a rustc_private driver that exports the type-checked program of the crate
//! under compilation (MIR bodies with resolved callees, decoded constants, ADT layouts,
//! impl tables) as one JSON fact file.  It contains no verification rule: it is a stable
//! exporter, every rule lives in /verif/analysis (Python).
//!
//! Used as RUSTC_WORKSPACE_WRAPPER: argv[1] is the real rustc path and is dropped.
//! Facts are written only for primary packages (workspace members) and only when
//! PFZ_FACTS_OUT names an output directory.

#![feature(rustc_private)]
#![allow(clippy::all)]

extern crate rustc_abi;
extern crate rustc_driver;
extern crate rustc_hir;
extern crate rustc_interface;
extern crate rustc_middle;
extern crate rustc_session;
extern crate rustc_span;

mod json;

use json::{obj, s, J};
use rustc_driver::{Callbacks, Compilation};
use rustc_hir::def::DefKind;
use rustc_hir::def_id::{DefId, LOCAL_CRATE};
use rustc_hir::BodyOwnerKind;
use rustc_middle::mir::{
    self, AggregateKind, BasicBlockData, Body, BorrowKind, CastKind, Const, ConstValue, Operand,
    Place, PlaceElem, Rvalue, StatementKind, TerminatorKind,
};
use rustc_middle::mir::interpret::{GlobalAlloc, Scalar};
use rustc_middle::mir::PlaceTy;
use rustc_middle::ty::print::with_no_trimmed_paths;
use rustc_middle::ty::{self, Instance, InstanceKind, Ty, TyCtxt, TypingEnv};
use rustc_span::Span;

struct Exporter;

fn path_of(tcx: TyCtxt<'_>, def_id: DefId) -> String {
    with_no_trimmed_paths!(tcx.def_path_str(def_id))
}

fn dp_of(tcx: TyCtxt<'_>, def_id: DefId) -> String {
    // crate-qualified definition path, independent of re-exports and of the crate being compiled
    format!("{}{}", tcx.crate_name(def_id.krate), tcx.def_path(def_id).to_string_no_crate_verbose())
}

fn ty_str(ty: Ty<'_>) -> String {
    with_no_trimmed_paths!(ty.to_string())
}

fn span_json(tcx: TyCtxt<'_>, span: Span) -> J {
    let sm = tcx.sess.source_map();
    let lo = sm.lookup_char_pos(span.lo());
    let hi = sm.lookup_char_pos(span.hi());
    let file = match &lo.file.name {
        rustc_span::FileName::Real(r) => match r.local_path() {
            Some(p) => p.to_string_lossy().into_owned(),
            None => format!("{:?}", lo.file.name),
        },
        other => format!("{:?}", other),
    };
    obj(vec![
        ("file", s(file)),
        ("line", J::UInt(lo.line as u128)),
        ("end_line", J::UInt(hi.line as u128)),
        ("expn", J::Bool(span.from_expansion())),
    ])
}

fn line_of(tcx: TyCtxt<'_>, span: Span) -> J {
    let sm = tcx.sess.source_map();
    // Use the outermost call-site of a macro expansion so the line is inside the crate.
    let sp = span.source_callsite();
    let lo = sm.lookup_char_pos(sp.lo());
    J::UInt(lo.line as u128)
}

struct Cx<'tcx> {
    tcx: TyCtxt<'tcx>,
    typing_env: TypingEnv<'tcx>,
}

impl<'tcx> Cx<'tcx> {
    fn place(&self, body: &Body<'tcx>, place: &Place<'tcx>) -> J {
        let tcx = self.tcx;
        let mut pty = PlaceTy::from_ty(body.local_decls[place.local].ty);
        let mut projs = Vec::new();
        for elem in place.projection.iter() {
            let j = match elem {
                PlaceElem::Deref => s("deref"),
                PlaceElem::Field(f, fty) => {
                    let mut name = String::new();
                    if let ty::Adt(adt, _) = pty.ty.kind() {
                        let vidx = pty.variant_index.unwrap_or(rustc_abi::FIRST_VARIANT);
                        if adt.is_enum() || adt.is_struct() || adt.is_union() {
                            if let Some(fd) = adt.variant(vidx).fields.get(f) {
                                name = fd.name.to_string();
                            }
                        }
                    }
                    obj(vec![
                        ("f", J::UInt(f.as_usize() as u128)),
                        ("n", s(name)),
                        ("ty", s(ty_str(fty))),
                    ])
                }
                PlaceElem::Index(l) => obj(vec![("idx", J::UInt(l.as_usize() as u128))]),
                PlaceElem::ConstantIndex { offset, min_length, from_end } => obj(vec![
                    ("ci", J::UInt(offset as u128)),
                    ("min", J::UInt(min_length as u128)),
                    ("fe", J::Bool(from_end)),
                ]),
                PlaceElem::Subslice { from, to, from_end } => obj(vec![
                    ("sub", J::Arr(vec![J::UInt(from as u128), J::UInt(to as u128)])),
                    ("fe", J::Bool(from_end)),
                ]),
                PlaceElem::Downcast(name, v) => obj(vec![
                    ("dc", J::UInt(v.as_usize() as u128)),
                    ("n", s(name.map(|x| x.to_string()).unwrap_or_default())),
                ]),
                PlaceElem::OpaqueCast(t) => obj(vec![("oc", s(ty_str(t)))]),
                PlaceElem::UnwrapUnsafeBinder(t) => obj(vec![("uub", s(ty_str(t)))]),
            };
            projs.push(j);
            pty = pty.projection_ty(tcx, elem);
        }
        obj(vec![("l", J::UInt(place.local.as_usize() as u128)), ("p", J::Arr(projs))])
    }

    fn callee(&self, def_id: DefId, args: ty::GenericArgsRef<'tcx>) -> J {
        let tcx = self.tcx;
        let mut v = vec![
            ("path", s(path_of(tcx, def_id))),
            ("args", J::Arr(args.iter().map(|a| s(with_no_trimmed_paths!(a.to_string()))).collect())),
            ("local", J::Bool(def_id.is_local())),
            ("name", s(tcx.item_name(def_id).to_string())),
            ("dp", s(dp_of(tcx, def_id))),
        ];
        if let Some(tr) = tcx.trait_of_assoc(def_id) {
            v.push(("trait", s(path_of(tcx, tr))));
        }
        if let Some(im) = tcx.impl_of_assoc(def_id) {
            let self_ty = tcx.type_of(im).instantiate_identity().skip_norm_wip();
            v.push(("impl_self", s(ty_str(self_ty))));
        }
        let resolvable = matches!(tcx.def_kind(def_id), DefKind::Fn | DefKind::AssocFn);
        if resolvable {
            match Instance::try_resolve(tcx, self.typing_env, def_id, args) {
                Ok(Some(inst)) => {
                    let (kind, rid): (&str, Option<DefId>) = match inst.def {
                        InstanceKind::Item(d) => ("item", Some(d)),
                        InstanceKind::Intrinsic(d) => ("intrinsic", Some(d)),
                        InstanceKind::Virtual(d, _) => ("virtual", Some(d)),
                        InstanceKind::ClosureOnceShim { call_once, .. } => {
                            ("closure_once_shim", Some(call_once))
                        }
                        InstanceKind::DropGlue(d, _) => ("drop_glue", Some(d)),
                        InstanceKind::CloneShim(d, _) => ("clone_shim", Some(d)),
                        InstanceKind::FnPtrShim(d, _) => ("fn_ptr_shim", Some(d)),
                        InstanceKind::ReifyShim(d, _) => ("reify_shim", Some(d)),
                        InstanceKind::VTableShim(d) => ("vtable_shim", Some(d)),
                        _ => ("other", None),
                    };
                    let mut r = vec![("kind", s(kind))];
                    if let Some(d) = rid {
                        r.push(("dp", s(dp_of(tcx, d))));
                        r.push(("path", s(path_of(tcx, d))));
                        r.push(("local", J::Bool(d.is_local())));
                        if let Some(im) = tcx.impl_of_assoc(d) {
                            let self_ty = tcx.type_of(im).instantiate_identity().skip_norm_wip();
                            r.push(("impl_self", s(ty_str(self_ty))));
                            if let Some(tr) = tcx.impl_opt_trait_ref(im) {
                                r.push((
                                    "impl_trait",
                                    s(path_of(tcx, tr.instantiate_identity().skip_norm_wip().def_id)),
                                ));
                            }
                        }
                    }
                    r.push((
                        "args",
                        J::Arr(
                            inst.args
                                .iter()
                                .map(|a| s(with_no_trimmed_paths!(a.to_string())))
                                .collect(),
                        ),
                    ));
                    v.push(("res", obj(r)));
                }
                Ok(None) => v.push(("res", obj(vec![("kind", s("unresolved"))]))),
                Err(_) => v.push(("res", obj(vec![("kind", s("error"))]))),
            }
        }
        obj(v)
    }

    fn scalar_json(&self, sc: Scalar, ty: Ty<'tcx>) -> Option<J> {
        let tcx = self.tcx;
        match sc {
            Scalar::Int(si) => {
                let size = si.size();
                let bits = si.to_bits(size);
                Some(match ty.kind() {
                    ty::Bool => obj(vec![("bool", J::Bool(bits != 0))]),
                    ty::Char => obj(vec![("char", J::UInt(bits))]),
                    ty::Int(_) => obj(vec![("int", J::Int(si.to_int(size)))]),
                    ty::Uint(_) => obj(vec![("int", J::UInt(bits))]),
                    ty::Float(_) => obj(vec![
                        ("fbits", J::UInt(bits)),
                        ("fsize", J::UInt(size.bytes() as u128)),
                    ]),
                    _ => obj(vec![("raw", J::UInt(bits)), ("size", J::UInt(size.bytes() as u128))]),
                })
            }
            Scalar::Ptr(ptr, _) => {
                // pointer into a global allocation: decode &[u8; N] / &u8-like byte blobs
                let (prov, off) = ptr.prov_and_relative_offset();
                let alloc_id = prov.alloc_id();
                match tcx.global_alloc(alloc_id) {
                    GlobalAlloc::Memory(mem) => {
                        let inner = mem.inner();
                        let pointee = match ty.kind() {
                            ty::Ref(_, t, _) => Some(*t),
                            ty::RawPtr(t, _) => Some(*t),
                            _ => None,
                        };
                        let is_bytes = match pointee.map(|t| t.kind().clone()) {
                            Some(ty::Array(et, _)) => et.is_integral() && matches!(et.kind(), ty::Uint(ty::UintTy::U8)),
                            _ => false,
                        };
                        if is_bytes && inner.provenance().ptrs().is_empty() {
                            let start = off.bytes() as usize;
                            let bytes = inner
                                .inspect_with_uninit_and_ptr_outside_interpreter(start..inner.len());
                            Some(obj(vec![(
                                "bytes",
                                J::Arr(bytes.iter().map(|b| J::UInt(*b as u128)).collect()),
                            )]))
                        } else {
                            Some(obj(vec![("ptr", s(format!("{:?}", alloc_id)))]))
                        }
                    }
                    GlobalAlloc::Static(d) => Some(obj(vec![("static", s(path_of(tcx, d)))])),
                    GlobalAlloc::Function { instance } => {
                        Some(obj(vec![("fnptr", self.callee(instance.def_id(), instance.args))]))
                    }
                    _ => Some(obj(vec![("ptr", s(format!("{:?}", alloc_id)))])),
                }
            }
        }
    }

    fn const_value(&self, val: ConstValue, ty: Ty<'tcx>, depth: usize) -> J {
        let tcx = self.tcx;
        match val {
            ConstValue::Scalar(sc) => {
                if let Some(j) = self.scalar_json(sc, ty) {
                    if let ty::Adt(adt, _) = ty.kind() {
                        // fieldless enum or newtype: try to destructure for a variant name
                        if depth < 6 && !adt.variants().is_empty() && !adt.is_union() {
                            if let Some(d) = tcx.try_destructure_mir_constant_for_user_output(val, ty) {
                                return self.destructured(adt_name(tcx, *adt), d, ty, depth);
                            }
                        }
                    }
                    return j;
                }
                obj(vec![("opaque", s(format!("{:?}", val)))])
            }
            ConstValue::ZeroSized => match ty.kind() {
                ty::FnDef(def_id, args) => obj(vec![("fn", self.callee(*def_id, args))]),
                _ => obj(vec![("zst", s(ty_str(ty)))]),
            },
            ConstValue::Slice { .. } => {
                let is_bytes = match ty.kind() {
                    ty::Ref(_, t, _) => {
                        t.is_str() || matches!(t.kind(), ty::Slice(e) if matches!(e.kind(), ty::Uint(ty::UintTy::U8)))
                    }
                    _ => false,
                };
                if is_bytes {
                    if let Some(bytes) = val.try_get_slice_bytes_for_diagnostics(tcx) {
                        let is_str = matches!(ty.kind(), ty::Ref(_, t, _) if t.is_str());
                        let mut v = vec![(
                            "bytes",
                            J::Arr(bytes.iter().map(|b| J::UInt(*b as u128)).collect()),
                        )];
                        if is_str {
                            v.push(("str", s(String::from_utf8_lossy(bytes).into_owned())));
                        }
                        return obj(v);
                    }
                }
                // &[T] of plain scalars (char, integers, bool): read the elements from the allocation
                if let (ConstValue::Slice { alloc_id, meta }, ty::Ref(_, t, _)) = (val, ty.kind()) {
                    if let ty::Slice(e) = t.kind() {
                        let esz: Option<(usize, bool)> = match e.kind() {
                            ty::Char => Some((4, false)),
                            ty::Bool => Some((1, false)),
                            ty::Uint(u) => u.bit_width().map(|b| ((b / 8) as usize, false)).or(Some((8, false))),
                            ty::Int(i) => i.bit_width().map(|b| ((b / 8) as usize, true)).or(Some((8, true))),
                            _ => None,
                        };
                        if let Some((sz, signed)) = esz {
                            if let rustc_middle::mir::interpret::GlobalAlloc::Memory(mem) = tcx.global_alloc(alloc_id) {
                                let n = meta as usize;
                                let alloc = mem.inner();
                                if n.checked_mul(sz).map_or(false, |tot| tot <= alloc.len()) {
                                    let raw = alloc.inspect_with_uninit_and_ptr_outside_interpreter(0..n * sz);
                                    let mut elems = Vec::with_capacity(n);
                                    for k in 0..n {
                                        let mut v: u128 = 0;
                                        for (bi, b) in raw[k * sz..(k + 1) * sz].iter().enumerate() {
                                            v |= (*b as u128) << (8 * bi);
                                        }
                                        if signed && sz < 16 && (v >> (8 * sz - 1)) & 1 == 1 {
                                            let full: i128 = (v as i128) - (1i128 << (8 * sz));
                                            elems.push(J::Int(full));
                                        } else {
                                            elems.push(J::UInt(v));
                                        }
                                    }
                                    return obj(vec![("elems", J::Arr(elems)), ("ety", s(ty_str(*e)))]);
                                }
                            }
                        }
                    }
                }
                obj(vec![("opaque", s(format!("{:?}", val)))])
            }
            ConstValue::Indirect { .. } => {
                let is_bytes = match ty.kind() {
                    ty::Ref(_, t, _) => {
                        t.is_str() || matches!(t.kind(), ty::Slice(e) if matches!(e.kind(), ty::Uint(ty::UintTy::U8)))
                    }
                    _ => false,
                };
                if is_bytes {
                    if let Some(bytes) = val.try_get_slice_bytes_for_diagnostics(tcx) {
                        return obj(vec![(
                            "bytes",
                            J::Arr(bytes.iter().map(|b| J::UInt(*b as u128)).collect()),
                        )]);
                    }
                }
                let destructurable = match ty.kind() {
                    ty::Array(..) | ty::Tuple(..) => true,
                    ty::Adt(def, _) => !def.variants().is_empty() && !def.is_union(),
                    _ => false,
                };
                if depth < 6 && destructurable {
                    if let Some(d) = tcx.try_destructure_mir_constant_for_user_output(val, ty) {
                        let name = match ty.kind() {
                            ty::Adt(adt, _) => adt_name(tcx, *adt),
                            _ => String::new(),
                        };
                        return self.destructured(name, d, ty, depth);
                    }
                }
                obj(vec![("opaque", s(format!("{:?}", val)))])
            }
        }
    }

    fn destructured(
        &self,
        adt: String,
        d: mir::DestructuredConstant<'tcx>,
        ty: Ty<'tcx>,
        depth: usize,
    ) -> J {
        let mut v = Vec::new();
        if !adt.is_empty() {
            v.push(("adt", s(adt)));
            if let ty::Adt(a, _) = ty.kind() {
                v.push(("adt_dp", s(dp_of(self.tcx, a.did()))));
            }
        }
        if let Some(vi) = d.variant {
            v.push(("variant", J::UInt(vi.as_usize() as u128)));
            if let ty::Adt(a, _) = ty.kind() {
                v.push(("vname", s(a.variant(vi).name.to_string())));
            }
        }
        v.push((
            "fields",
            J::Arr(d.fields.iter().map(|(cv, t)| self.const_json_val(*cv, *t, depth + 1)).collect()),
        ));
        obj(v)
    }

    fn const_json_val(&self, val: ConstValue, ty: Ty<'tcx>, depth: usize) -> J {
        obj(vec![("ty", s(ty_str(ty))), ("v", self.const_value(val, ty, depth))])
    }

    fn constant(&self, c: &Const<'tcx>, span: Span) -> J {
        let tcx = self.tcx;
        let ty = c.ty();
        if let Const::Unevaluated(uv, _) = c {
            if let Some(p) = uv.promoted {
                return obj(vec![
                    ("ty", s(ty_str(ty))),
                    ("v", obj(vec![("promoted", J::UInt(p.as_usize() as u128))])),
                ]);
            }
        }
        match c.eval(tcx, self.typing_env, span) {
            Ok(val) => {
                let mut j = vec![("ty", s(ty_str(ty))), ("v", self.const_value(val, ty, 0))];
                if let Const::Unevaluated(uv, _) = c {
                    j.push(("named", s(path_of(tcx, uv.def))));
                }
                obj(j)
            }
            Err(_) => obj(vec![
                ("ty", s(ty_str(ty))),
                ("v", obj(vec![("opaque", s(format!("{:?}", c)))])),
            ]),
        }
    }

    fn operand(&self, body: &Body<'tcx>, op: &Operand<'tcx>) -> J {
        match op {
            Operand::Copy(p) => obj(vec![("cp", self.place(body, p))]),
            Operand::Move(p) => obj(vec![("mv", self.place(body, p))]),
            Operand::Constant(c) => obj(vec![("c", self.constant(&c.const_, c.span))]),
            #[allow(unreachable_patterns)]
            other => obj(vec![("other", s(format!("{:?}", other)))]),
        }
    }

    fn rvalue(&self, body: &Body<'tcx>, rv: &Rvalue<'tcx>) -> J {
        let tcx = self.tcx;
        match rv {
            Rvalue::Use(op, ..) => obj(vec![("k", s("use")), ("o", self.operand(body, op))]),
            Rvalue::Repeat(op, n) => obj(vec![
                ("k", s("repeat")),
                ("o", self.operand(body, op)),
                ("n", match n.try_to_target_usize(tcx) {
                    Some(x) => J::UInt(x as u128),
                    None => J::Null,
                }),
            ]),
            Rvalue::Ref(_, bk, p) => obj(vec![
                ("k", s("ref")),
                (
                    "bk",
                    s(match bk {
                        BorrowKind::Shared => "shared",
                        BorrowKind::Fake(_) => "fake",
                        BorrowKind::Mut { .. } => "mut",
                    }),
                ),
                ("pl", self.place(body, p)),
            ]),
            Rvalue::RawPtr(k, p) => obj(vec![
                ("k", s("rawptr")),
                ("bk", s(format!("{:?}", k))),
                ("pl", self.place(body, p)),
            ]),
            Rvalue::Cast(ck, op, ty) => {
                let from = op.ty(&body.local_decls, tcx);
                let ckn = match ck {
                    CastKind::PointerCoercion(pc, _) => format!("PointerCoercion({:?})", pc),
                    other => format!("{:?}", other),
                };
                obj(vec![
                    ("k", s("cast")),
                    ("ck", s(ckn)),
                    ("o", self.operand(body, op)),
                    ("ty", s(ty_str(*ty))),
                    ("from", s(ty_str(from))),
                ])
            }
            Rvalue::BinaryOp(op, b) => {
                let lty = b.0.ty(&body.local_decls, tcx);
                obj(vec![
                    ("k", s("bin")),
                    ("op", s(format!("{:?}", op))),
                    ("l", self.operand(body, &b.0)),
                    ("r", self.operand(body, &b.1)),
                    ("ty", s(ty_str(lty))),
                ])
            }
            Rvalue::UnaryOp(op, o) => {
                let oty = o.ty(&body.local_decls, tcx);
                obj(vec![
                    ("k", s("un")),
                    ("op", s(format!("{:?}", op))),
                    ("o", self.operand(body, o)),
                    ("ty", s(ty_str(oty))),
                ])
            }
            Rvalue::Discriminant(p) => {
                let pty = p.ty(&body.local_decls, tcx).ty;
                let (adt, adt_dp) = match pty.kind() {
                    ty::Adt(a, _) => (adt_name(tcx, *a), dp_of(tcx, a.did())),
                    _ => (String::new(), String::new()),
                };
                obj(vec![("k", s("discr")), ("pl", self.place(body, p)), ("adt", s(adt)), ("adt_dp", s(adt_dp))])
            }
            Rvalue::Aggregate(ak, ops) => {
                let akj = match &**ak {
                    AggregateKind::Array(t) => obj(vec![("t", s("array")), ("ety", s(ty_str(*t)))]),
                    AggregateKind::Tuple => obj(vec![("t", s("tuple"))]),
                    AggregateKind::Adt(did, vi, _, _, active) => {
                        let adt = tcx.adt_def(*did);
                        let var = adt.variant(*vi);
                        let mut v = vec![
                            ("t", s("adt")),
                            ("adt", s(path_of(tcx, *did))),
                            ("adt_dp", s(dp_of(tcx, *did))),
                            ("v", J::UInt(vi.as_usize() as u128)),
                            ("vn", s(var.name.to_string())),
                            ("kind", s(if adt.is_enum() { "enum" } else if adt.is_union() { "union" } else { "struct" })),
                            (
                                "fields",
                                J::Arr(var.fields.iter().map(|f| s(f.name.to_string())).collect()),
                            ),
                        ];
                        if adt.is_enum() {
                            let d = adt.discriminant_for_variant(tcx, *vi);
                            v.push(("discr", J::UInt(d.val)));
                        }
                        if let Some(a) = active {
                            v.push(("active", J::UInt(a.as_usize() as u128)));
                        }
                        obj(v)
                    }
                    AggregateKind::Closure(did, _) => {
                        obj(vec![("t", s("closure")), ("closure", s(path_of(tcx, *did))), ("dp", s(dp_of(tcx, *did)))])
                    }
                    other => obj(vec![("t", s("other")), ("text", s(format!("{:?}", other)))]),
                };
                obj(vec![
                    ("k", s("agg")),
                    ("ak", akj),
                    ("ops", J::Arr(ops.iter().map(|o| self.operand(body, o)).collect())),
                ])
            }
            Rvalue::CopyForDeref(p) => obj(vec![("k", s("cfd")), ("pl", self.place(body, p))]),
            Rvalue::ThreadLocalRef(d) => obj(vec![("k", s("tlref")), ("def", s(path_of(tcx, *d)))]),
            other => obj(vec![("k", s("other")), ("text", s(format!("{:?}", other)))]),
        }
    }

    fn block(&self, body: &Body<'tcx>, bb: &BasicBlockData<'tcx>) -> J {
        let tcx = self.tcx;
        let mut stmts = Vec::new();
        for st in &bb.statements {
            let ln = line_of(tcx, st.source_info.span);
            match &st.kind {
                StatementKind::Assign(b) => stmts.push(obj(vec![
                    ("k", s("assign")),
                    ("pl", self.place(body, &b.0)),
                    ("rv", self.rvalue(body, &b.1)),
                    ("ln", ln),
                ])),
                StatementKind::SetDiscriminant { place, variant_index } => stmts.push(obj(vec![
                    ("k", s("setdiscr")),
                    ("pl", self.place(body, place)),
                    ("v", J::UInt(variant_index.as_usize() as u128)),
                    ("ln", ln),
                ])),
                StatementKind::StorageLive(_)
                | StatementKind::StorageDead(_)
                | StatementKind::Nop
                | StatementKind::FakeRead(_)
                | StatementKind::PlaceMention(_)
                | StatementKind::AscribeUserType(..)
                | StatementKind::Coverage(..)
                | StatementKind::ConstEvalCounter
                | StatementKind::BackwardIncompatibleDropHint { .. } => {}
                other => stmts.push(obj(vec![
                    ("k", s("other")),
                    ("text", s(format!("{:?}", other))),
                    ("ln", ln),
                ])),
            }
        }
        let term = bb.terminator();
        let ln = line_of(tcx, term.source_info.span);
        let expn = J::Bool(term.source_info.span.from_expansion());
        let bbj = |b: mir::BasicBlock| J::UInt(b.as_usize() as u128);
        let tj = match &term.kind {
            TerminatorKind::Goto { target } => obj(vec![("k", s("goto")), ("t", bbj(*target))]),
            TerminatorKind::SwitchInt { discr, targets } => {
                let dty = discr.ty(&body.local_decls, tcx);
                obj(vec![
                    ("k", s("switch")),
                    ("o", self.operand(body, discr)),
                    ("ty", s(ty_str(dty))),
                    (
                        "targets",
                        J::Arr(targets.iter().map(|(v, b)| J::Arr(vec![J::UInt(v), bbj(b)])).collect()),
                    ),
                    ("otherwise", bbj(targets.otherwise())),
                    ("ln", ln),
                ])
            }
            TerminatorKind::Return => obj(vec![("k", s("return")), ("ln", ln)]),
            TerminatorKind::Unreachable => obj(vec![("k", s("unreachable")), ("ln", ln)]),
            TerminatorKind::UnwindResume => obj(vec![("k", s("resume"))]),
            TerminatorKind::UnwindTerminate(_) => obj(vec![("k", s("terminate"))]),
            TerminatorKind::Drop { place, target, .. } => {
                let pty = place.ty(&body.local_decls, tcx).ty;
                obj(vec![
                    ("k", s("drop")),
                    ("pl", self.place(body, place)),
                    ("ty", s(ty_str(pty))),
                    ("t", bbj(*target)),
                    ("ln", ln),
                ])
            }
            TerminatorKind::Call { func, args, destination, target, .. } => {
                let fj = match func {
                    Operand::Constant(c) => match c.const_.ty().kind() {
                        ty::FnDef(d, a) => self.callee(*d, a),
                        _ => obj(vec![("indirect", self.operand(body, func))]),
                    },
                    _ => obj(vec![("indirect", self.operand(body, func))]),
                };
                obj(vec![
                    ("k", s("call")),
                    ("f", fj),
                    ("args", J::Arr(args.iter().map(|a| self.operand(body, &a.node)).collect())),
                    ("dest", self.place(body, destination)),
                    ("t", match target { Some(t) => bbj(*t), None => J::Null }),
                    ("ln", ln),
                    ("expn", expn),
                ])
            }
            TerminatorKind::Assert { cond, expected, msg, target, .. } => {
                let kind = format!("{:?}", msg);
                obj(vec![
                    ("k", s("assert")),
                    ("c", self.operand(body, cond)),
                    ("exp", J::Bool(*expected)),
                    ("msg", s(kind)),
                    ("t", bbj(*target)),
                    ("ln", ln),
                ])
            }
            TerminatorKind::FalseEdge { real_target, .. } => {
                obj(vec![("k", s("goto")), ("t", bbj(*real_target))])
            }
            TerminatorKind::FalseUnwind { real_target, .. } => {
                obj(vec![("k", s("goto")), ("t", bbj(*real_target))])
            }
            other => obj(vec![("k", s("other")), ("text", s(format!("{:?}", other))), ("ln", ln)]),
        };
        obj(vec![("s", J::Arr(stmts)), ("t", tj), ("cleanup", J::Bool(bb.is_cleanup))])
    }

    fn body(&self, body: &Body<'tcx>) -> Vec<(&'static str, J)> {
        let tcx = self.tcx;
        let mut names: Vec<Option<String>> = vec![None; body.local_decls.len()];
        for vdi in &body.var_debug_info {
            if let mir::VarDebugInfoContents::Place(p) = &vdi.value {
                if p.projection.is_empty() {
                    names[p.local.as_usize()] = Some(vdi.name.to_string());
                }
            }
        }
        let locals = body
            .local_decls
            .iter_enumerated()
            .map(|(l, d)| {
                let mut v = vec![("ty", s(ty_str(d.ty)))];
                if let Some(n) = &names[l.as_usize()] {
                    v.push(("name", s(n.clone())));
                }
                obj(v)
            })
            .collect();
        let blocks = body.basic_blocks.iter().map(|bb| self.block(body, bb)).collect();
        let _ = tcx;
        vec![
            ("arg_count", J::UInt(body.arg_count as u128)),
            ("locals", J::Arr(locals)),
            ("blocks", J::Arr(blocks)),
        ]
    }
}

fn adt_name(tcx: TyCtxt<'_>, adt: ty::AdtDef<'_>) -> String {
    path_of(tcx, adt.did())
}

impl Callbacks for Exporter {
    fn after_analysis<'tcx>(
        &mut self,
        _compiler: &rustc_interface::interface::Compiler,
        tcx: TyCtxt<'tcx>,
    ) -> Compilation {
        let out_dir = match std::env::var("PFZ_FACTS_OUT") {
            Ok(d) => d,
            Err(_) => return Compilation::Continue,
        };
        if std::env::var("CARGO_PRIMARY_PACKAGE").is_err() {
            return Compilation::Continue;
        }
        if tcx.dcx().has_errors().is_some() {
            return Compilation::Continue;
        }
        let crate_name = tcx.crate_name(LOCAL_CRATE).to_string();
        let is_bin = tcx
            .crate_types()
            .iter()
            .any(|t| matches!(t, rustc_session::config::CrateType::Executable));
        let is_test = tcx.sess.opts.test;
        let unit = std::env::var("PFZ_UNIT").unwrap_or_else(|_| "default".to_string());
        let kind = if is_test { "test" } else if is_bin { "bin" } else { "lib" };

        let mut bodies: Vec<(String, J)> = Vec::new();
        for ldid in tcx.hir_body_owners() {
            let def_id = ldid.to_def_id();
            let bok = tcx.hir_body_owner_kind(ldid);
            let (body, kind_s): (&Body<'tcx>, &str) = match bok {
                BodyOwnerKind::Fn => (tcx.optimized_mir(def_id), "fn"),
                BodyOwnerKind::Closure => (tcx.optimized_mir(def_id), "closure"),
                BodyOwnerKind::Const { .. } => (tcx.mir_for_ctfe(def_id), "const"),
                BodyOwnerKind::Static(_) => (tcx.mir_for_ctfe(def_id), "static"),
                BodyOwnerKind::GlobalAsm => continue,
            };
            let cx = Cx { tcx, typing_env: TypingEnv::post_analysis(tcx, def_id) };
            let mut v = vec![
                ("kind", s(kind_s)),
                ("dp", s(dp_of(tcx, def_id))),
                ("def_kind", s(format!("{:?}", tcx.def_kind(def_id)))),
                ("span", span_json(tcx, tcx.def_span(def_id))),
                ("ret_ty", s(ty_str(body.local_decls[mir::RETURN_PLACE].ty))),
            ];
            {
                // generic parameter names in substitution order (parents first): lets the analysis bind const generics
                let g = tcx.generics_of(def_id);
                let names: Vec<J> = (0..g.count()).map(|i| s(g.param_at(i, tcx).name.to_string())).collect();
                v.push(("generics", J::Arr(names)));
            }
            if matches!(tcx.def_kind(def_id), DefKind::Fn | DefKind::AssocFn) {
                v.push(("vis", s(format!("{:?}", tcx.visibility(def_id)))));
            }
            if let Some(im) = tcx.impl_of_assoc(def_id) {
                let self_ty = tcx.type_of(im).instantiate_identity().skip_norm_wip();
                v.push(("impl_self", s(ty_str(self_ty))));
                if let Some(tr) = tcx.impl_opt_trait_ref(im) {
                    v.push(("impl_trait", s(path_of(tcx, tr.instantiate_identity().skip_norm_wip().def_id))));
                }
            }
            if let Some(tr) = tcx.trait_of_assoc(def_id) {
                v.push(("trait", s(path_of(tcx, tr))));
            }
            v.push(("name", s(tcx.opt_item_name(def_id).map(|x| x.to_string()).unwrap_or_default())));
            v.extend(cx.body(body));
            let promoted = tcx.promoted_mir(def_id);
            let pj: Vec<J> = promoted.iter().map(|pb| J::Obj(cx.body(pb))).collect();
            v.push(("promoted", J::Arr(pj)));
            bodies.push((path_of(tcx, def_id), J::Obj(v)));
        }

        // ADTs, impls
        let mut adts: Vec<(String, J)> = Vec::new();
        let mut impls: Vec<J> = Vec::new();
        for ldid in tcx.hir_crate_items(()).definitions() {
            let def_id = ldid.to_def_id();
            match tcx.def_kind(def_id) {
                DefKind::Struct | DefKind::Enum | DefKind::Union => {
                    let adt = tcx.adt_def(def_id);
                    let mut vars = Vec::new();
                    for (vi, var) in adt.variants().iter_enumerated() {
                        let discr = if adt.is_enum() {
                            J::UInt(adt.discriminant_for_variant(tcx, vi).val)
                        } else {
                            J::Null
                        };
                        let fields = var
                            .fields
                            .iter()
                            .map(|f| {
                                let fty = tcx.type_of(f.did).instantiate_identity().skip_norm_wip();
                                obj(vec![
                                    ("name", s(f.name.to_string())),
                                    ("ty", s(ty_str(fty))),
                                    ("vis", s(format!("{:?}", f.vis))),
                                ])
                            })
                            .collect();
                        vars.push(obj(vec![
                            ("name", s(var.name.to_string())),
                            ("idx", J::UInt(vi.as_usize() as u128)),
                            ("discr", discr),
                            ("fields", J::Arr(fields)),
                        ]));
                    }
                    adts.push((
                        path_of(tcx, def_id),
                        obj(vec![
                            ("kind", s(if adt.is_enum() { "enum" } else if adt.is_union() { "union" } else { "struct" })),
                            ("dp", s(dp_of(tcx, def_id))),
                            ("variants", J::Arr(vars)),
                            ("span", span_json(tcx, tcx.def_span(def_id))),
                        ]),
                    ));
                }
                DefKind::Impl { .. } => {
                    let self_ty = tcx.type_of(def_id).instantiate_identity().skip_norm_wip();
                    let tr = tcx
                        .impl_opt_trait_ref(def_id)
                        .map(|t| path_of(tcx, t.instantiate_identity().skip_norm_wip().def_id));
                    let items: Vec<J> = tcx
                        .associated_items(def_id)
                        .in_definition_order()
                        .map(|it| {
                            obj(vec![
                                ("name", s(it.name().to_string())),
                                ("key", s(path_of(tcx, it.def_id))),
                                ("kind", s(format!("{:?}", it.kind))),
                            ])
                        })
                        .collect();
                    impls.push(obj(vec![
                        ("self_ty", s(ty_str(self_ty))),
                        ("trait", match tr { Some(t) => s(t), None => J::Null }),
                        ("items", J::Arr(items)),
                        ("span", span_json(tcx, tcx.def_span(def_id))),
                    ]));
                }
                _ => {}
            }
        }

        let root = obj(vec![
            ("crate", s(crate_name.clone())),
            ("kind", s(kind)),
            ("unit", s(unit.clone())),
            ("nonce", s(std::env::var("PFZ_NONCE").unwrap_or_default())),
            ("rustc", s(option_env!("CFG_VERSION").unwrap_or("nightly").to_string())),
            ("bodies", J::Map(bodies)),
            ("adts", J::Map(adts)),
            ("impls", J::Arr(impls)),
        ]);
        let mut out = String::new();
        root.write(&mut out);
        let path = format!("{}/{}-{}-{}.json", out_dir, crate_name, kind, unit);
        let tmp = format!("{}.tmp{}", path, std::process::id());
        std::fs::write(&tmp, out).expect("pfz-facts: cannot write fact file");
        std::fs::rename(&tmp, &path).expect("pfz-facts: cannot rename fact file");
        Compilation::Continue
    }
}


fn main() {
    let mut args: Vec<String> = std::env::args().collect();
    // RUSTC_WORKSPACE_WRAPPER convention: argv[1] is the path of the real rustc.
    if args.len() > 1 && (args[1].ends_with("rustc") || args[1].contains("/rustc")) {
        args.remove(1);
    }
    let mut cb = Exporter;
    rustc_driver::run_compiler(&args, &mut cb);
}
